"""C19 - built-in degree distributions are the probability mass functions they name.

exp and real powers are uninterpreted functions EXP / POW with instantiated axioms (positivity,
EXP(0)=1, EXP(x)<1 for x<0, homomorphism instances, POW(k,-a)*POW(k,a)=1, monotonicity in k), so a
discharged obligation is valid for every interpretation satisfying the axioms, in particular the
true functions.  A sat answer may be an artefact of the abstraction: it is replayed numerically and
only a reproduced deviation counts."""
import math

import z3

from symx.core import Ctx, SymReal, all_, close, eq, implies

PROPERTY = "C19"
FUNCTIONS = ["gcmpy.distributions.exponential.exponential", "gcmpy.distributions.poisson.poisson", "gcmpy.distributions.power_law.power_law (zeta)",
             "gcmpy.distributions.scale_free_cut_off.scale_free_cut_off (polylog)"]
STUBS = ["numpy.exp / real powers -> uninterpreted EXP / POW with instantiated axioms (symx/uf.py)"]
BOUNDS = {
    "quick": "a table of concrete int and float parameters (numeric comparison at 1e-9); parameters a>0, mean>0, alpha>=2, kappa>0 symbolic; k in 0..6 (1..6 for the power laws); the truncation loop of zeta / polylog is unrolled by "
             "forking up to K<=6 terms (paths needing more terms are cut: small alpha / large kappa)",
    "thorough": "k up to 9, truncation up to K<=10",
}
OUTSIDE = "the infinite sums ('sums to 1 over the whole support') and the size of the tail beyond the truncated support are transcendental analysis, not SMT: " \
          "decided instead are the closed forms, the recurrences, non-negativity and normalisation over the truncated support 1..K with every dropped term below 1e-6; " \
          "truncation indices K above the bound (alpha < ~7.7 at K=6) are outside; floating-point rounding"
ASSUMPTIONS = ["EXP/POW axioms: EXP>0, EXP(0)=1, EXP(x)<1 for x<0, EXP(k*x)=EXP(x)^k, POW(b,x)>0 for b>0, POW(b,-x)*POW(b,x)=1, POW(b,x) increasing in b for x>0",
               "a model that does not reproduce numerically is reported as undecided, not as a violation (abstraction artefact)"]
EXPECTED_LABELS = ["exponential-closed-form", "exponential-nonneg", "exponential-partial-sums", "poisson-base", "poisson-recurrence", "poisson-nonneg",
                   "powerlaw-values", "powerlaw-normalised-on-truncated-support", "powerlaw-nonneg", "cutoff-values", "cutoff-normalised-on-truncated-support"]
SPURIOUS_IS_UNDECIDED = True
VALIDATE_EVERY = 1


def configs(tier):
    q = tier == "quick"
    kmax, K = (6, 6) if q else (9, 10)
    return [{"name": "exponential", "kind": "exponential", "kmax": kmax}, {"name": "poisson", "kind": "poisson", "kmax": kmax},
            {"name": "power_law", "kind": "power_law", "kmax": kmax, "K": K}, {"name": "scale_free_cut_off", "kind": "cutoff", "kmax": kmax, "K": K},
            {"name": "concrete-parameters", "kind": "concrete"},
            {"name": "scale_free_cut_off-second-factory", "kind": "cutoff", "kmax": 3, "K": 4, "second": True},
            {"name": "power_law-second-factory", "kind": "power_law", "kmax": 3, "K": 4, "second": True}]


def hexp(ctx, x):
    if isinstance(x, (int, float)):
        return math.exp(x)
    if ctx.mode == "sym":
        from symx import uf
        return uf.EXP(SymReal.of(x))
    return math.exp(x)


def hpow(ctx, b, x):
    if isinstance(b, (int, float)) and isinstance(x, (int, float)):
        return math.pow(b, x)
    if ctx.mode == "sym":
        from symx import uf
        return uf.POW(SymReal.of(b), SymReal.of(x))
    return math.pow(b, x)


def near(a, b, tol=1e-9):
    """|a-b| <= tol: used where concrete float arithmetic of the library (already rounded) meets exact symbolic terms"""
    if isinstance(a, (int, float)) and isinstance(b, (int, float)):
        return abs(a - b) <= tol
    return all_([a - b <= tol, b - a <= tol])


def exp_hom_axioms(ctx, kmax):
    """instances of EXP(k*x) = EXP(x)^k between the recorded applications"""
    if ctx.mode != "sym":
        return
    apps = list(ctx.__dict__.get("uf_exp", {}).values())
    for t0, e0 in apps:
        for t, e in apps:
            if t is t0:
                continue
            for k in range(2, kmax + 1):
                p = e0
                for _ in range(k - 1):
                    p = p * e0
                ctx.assume_raw(z3.Implies(t == k * t0, e == p))


def pow_axioms(ctx):
    if ctx.mode != "sym":
        return
    apps = list(ctx.__dict__.get("uf_pow", {}).values())
    for b1, x1, p1 in apps:
        for b2, x2, p2 in apps:
            if p1 is p2:
                continue
            ctx.assume_raw(z3.Implies(z3.And(b1 == b2, x1 == -x2), p1 * p2 == 1))
            ctx.assume_raw(z3.Implies(z3.And(x1 == x2, x1 > 0, b1 > 0, b1 < b2), p1 < p2))


def path_concrete(ctx):
    """plain numeric parameters of both Python number types (ints and floats): everything is concrete on this path"""
    from gcmpy.distributions.exponential import exponential
    from gcmpy.distributions.poisson import poisson
    from gcmpy.distributions.power_law import power_law
    from gcmpy.distributions.scale_free_cut_off import scale_free_cut_off

    def rel(a, b):
        return abs(a - b) <= 1e-9 * max(abs(a), abs(b), 1e-300)

    for a in (0.5, 1, 2.5, 3, 40):
        p = ctx.guard("factory-raised", exponential, a)
        bad = [k for k in range(0, 12) if not rel(float(ctx.guard("pmf-raised", p, k)), (1 - math.exp(-a)) * math.exp(-a * k))]
        ctx.require(not bad, "concrete-parameters", f"exponential({a!r}) deviates at k={bad}", sig="concrete:exponential")
    for m in (0.5, 1, 3, 7.25, 10, 12, 25):
        p = ctx.guard("factory-raised", poisson, m)
        bad = [k for k in range(0, 45) if not rel(float(ctx.guard("pmf-raised", p, k)), math.exp(-m) * float(m) ** k / math.factorial(k))]
        ctx.require(not bad, "concrete-parameters", f"poisson({m!r}) deviates at k={bad}", sig="concrete:poisson")
    for al in (2, 2.5, 3, 4, 4.0, 6):
        p = ctx.guard("factory-raised", power_law, al)
        C, j = 0.0, 1
        while True:
            t = 1.0 / float(j) ** float(al)
            C += t
            if t < 1e-6:
                break
            j += 1
        bad = [k for k in (1, 2, 3, 5, 10, 40) if not rel(float(ctx.guard("pmf-raised", p, k)), float(k) ** -float(al) / C)]
        tot = sum(float(p(k)) for k in range(1, j + 1))
        ctx.require(not bad and abs(tot - 1) < 1e-9, "concrete-parameters", f"power_law({al!r}) deviates at k={bad}; sum over the truncated support = {tot}",
                    sig="concrete:power_law")
    # ... and the "no cut-off" end of the kappa range, where exp(-1/kappa) rounds to exactly 1.0 (the law degenerates to the pure power law)
    for al, ka in ((2, 10), (2.5, 5.0), (3, 2), (4, 50), (2.0, 0.7), (2, 0.05), (3.5, 0.07), (2, 1e17), (3, float("inf")), (6, 1e300), (2.5, 1e9), (3.0, 4e16)):
        p = ctx.guard("factory-raised", scale_free_cut_off, al, ka)
        z = math.exp(-1.0 / ka)
        C, j, zk = 0.0, 1, z
        while True:
            t = zk / float(j) ** float(al)
            C += t
            if t < 1e-6:
                break
            zk *= z
            j += 1
        bad = [k for k in (1, 2, 3, 5, 10) if not rel(float(ctx.guard("pmf-raised", p, k)), float(k) ** -float(al) * math.exp(-k / ka) / C)]
        tot = sum(float(p(k)) for k in range(1, j + 1))
        ctx.require(not bad and abs(tot - 1) < 1e-9, "concrete-parameters", f"scale_free_cut_off({al!r},{ka!r}) deviates at k={bad}; sum = {tot}",
                    sig="concrete:cutoff")


def path(ctx, cfg):
    if cfg["kind"] == "concrete":
        return path_concrete(ctx)
    kind, kmax = cfg["kind"], cfg["kmax"]
    if kind == "exponential":
        from gcmpy.distributions.exponential import exponential

        a = ctx.real("a", 0, 20, lo_strict=True)
        p = ctx.guard("factory-raised", exponential, a)
        vals = [ctx.guard("pmf-raised", p, k) for k in range(kmax + 1)]
        q = hexp(ctx, -a)
        refs = [(1 - q) * hexp(ctx, -a * k) for k in range(kmax + 1)]
        exp_hom_axioms(ctx, kmax)
        ctx.require(all_(eq(v, r) for v, r in zip(vals, refs)), "exponential-closed-form", "exponential(a)(k) != (1-e^-a) e^-ak", twin=eq(vals[1], refs[2]))
        ctx.require(all_(eq(v, (1 - q) * q ** k) for k, v in enumerate(vals)), "exponential-closed-form", "exponential(a)(k) != (1-q) q^k with q=e^-a",
                    twin=eq(vals[2], (1 - q) * q))
        ctx.require(all_([v >= 0 for v in vals] + [v <= 1 for v in vals]), "exponential-nonneg", "exponential pmf outside [0,1]", twin=(vals[0] > 1))
        s = 0
        for v in vals:
            s = s + v
        ctx.require(eq(s, 1 - q ** (kmax + 1)), "exponential-partial-sums", f"sum_(k<={kmax}) p(k) != 1 - e^(-a({kmax}+1))", twin=eq(s, 1))
        return
    if kind == "poisson":
        from gcmpy.distributions.poisson import poisson

        m = ctx.real("mean", 0, 30, lo_strict=True)
        p = ctx.guard("factory-raised", poisson, m)
        vals = [ctx.guard("pmf-raised", p, k) for k in range(kmax + 1)]
        ctx.require(eq(vals[0], hexp(ctx, -m)), "poisson-base", "poisson(m)(0) != e^-m", twin=eq(vals[1], hexp(ctx, -m)))
        ctx.require(all_(eq(vals[k + 1] * (k + 1), m * vals[k]) for k in range(kmax)), "poisson-recurrence", "p(k+1)(k+1) != m p(k)",
                    twin=all_(eq(vals[k + 1] * (k + 2), m * vals[k]) for k in range(kmax)))
        ctx.require(all_(v >= 0 for v in vals), "poisson-nonneg", "negative poisson probability", twin=(vals[0] > 1))
        return
    K = cfg["K"]
    if kind == "power_law":
        from gcmpy.distributions.power_law import power_law

        alpha = ctx.real("alpha", 2, 40)
        if cfg.get("second"):
            # another distribution was built earlier in the same process: nothing of it may be reused
            ctx.guard("factory-raised", power_law, 3.0)
        if ctx.mode == "sym":
            from symx import uf
            uf.UF_LIMIT = K
            ctx.__dict__["_uf_count"] = 0
            d0 = len(ctx.trace)
        p = ctx.guard("factory-raised", power_law, alpha)
        if ctx.mode == "sym":
            from symx import uf
            uf.UF_LIMIT = 4 * K + 40
            # one solver-decided comparison per loop iteration, except the first (1/1**s = 1.0 is decided concretely)
            n_terms = len(ctx.trace) - d0 + 1
        else:
            n_terms = None
        vals = {k: ctx.guard("pmf-raised", p, k) for k in range(1, kmax + 1)}
        terms = lambda j: 1 / hpow(ctx, j, alpha)
        if n_terms is None:
            # concrete replay: recompute the truncation index
            n_terms, j = 0, 1
            while True:
                n_terms += 1
                if abs(1.0 / j ** alpha) < 1e-6:
                    break
                j += 1
        C = 0
        for j in range(1, n_terms + 1):
            C = C + terms(j)
        pw = {k: hpow(ctx, k, -alpha) for k in vals}
        pow_axioms(ctx)
        ctx.require(all_(eq(vals[k] * C, pw[k]) for k in vals), "powerlaw-values", f"power_law(alpha)(k) != k^-alpha / sum_(j<={n_terms}) j^-alpha",
                    twin=eq(vals[2] * C, pw[3]) if kmax >= 3 else None)
        ctx.require(all_(v >= 0 for v in vals.values()), "powerlaw-nonneg", "negative power-law probability", twin=(vals[1] > 1))
        # normalised over the truncated support 1..K, every dropped term below the tolerance
        ext = {k: (vals[k] if k in vals else ctx.guard("pmf-raised", p, k)) for k in range(1, n_terms + 1)}
        pow_axioms(ctx)
        s = 0
        for k in range(1, n_terms + 1):
            s = s + ext[k]
        ctx.require(eq(s, 1), "powerlaw-normalised-on-truncated-support", f"sum_(k<={n_terms}) p(k) != 1", twin=eq(s, 2))
        tol = 1e-6
        ctx.require(all_([terms(n_terms) < tol] + [terms(j) >= tol for j in range(1, n_terms)]), "powerlaw-normalised-on-truncated-support",
                    f"truncation index {n_terms} is not the first term below 1e-6")
        return
    if kind == "cutoff":
        from gcmpy.distributions.scale_free_cut_off import scale_free_cut_off

        alpha = ctx.real("alpha", 2, 40)
        kappa = ctx.real("kappa", 0, 50, lo_strict=True)
        if cfg.get("second"):
            # the same alpha with another kappa was used earlier in the same process: nothing of it may be reused
            alpha = 8.0  # concrete exponent shared by both factories, kappa differs (first concrete, second symbolic)
            ctx.guard("factory-raised", scale_free_cut_off, alpha, 5.0)
        if ctx.mode == "sym":
            from symx import uf
            uf.UF_LIMIT = K + 1
            ctx.__dict__["_uf_count"] = 0
            d0 = len(ctx.trace)
        p = ctx.guard("factory-raised", scale_free_cut_off, alpha, kappa)
        if ctx.mode == "sym":
            from symx import uf
            uf.UF_LIMIT = 6 * K + 60
            n_terms = len(ctx.trace) - d0  # one solver-decided comparison per loop iteration
        else:
            n_terms = None
        z = hexp(ctx, -1.0 / kappa)
        term = lambda j: z ** j / hpow(ctx, j, alpha)
        if n_terms is None:
            n_terms, j, zf = 0, 1, math.exp(-1.0 / kappa)
            zk = zf
            while True:
                n_terms += 1
                if abs(zk / j ** alpha) < 1e-6:
                    break
                zk *= zf
                j += 1
        vals = {k: ctx.guard("pmf-raised", p, k) for k in range(1, max(kmax, n_terms) + 1)}
        C = 0
        for j in range(1, n_terms + 1):
            C = C + term(j)
        rhs = {k: hpow(ctx, k + 0.0, -alpha) * hexp(ctx, -(k + 0.0) / kappa) for k in vals}
        pow_axioms(ctx)
        exp_hom_axioms(ctx, max(kmax, n_terms))
        same = near if cfg.get("second") else eq  # concrete exponent: the library's own float powers are already rounded
        ctx.require(all_(same(vals[k] * C, rhs[k]) for k in vals), "cutoff-values", f"scale_free_cut_off(k) != k^-alpha e^(-k/kappa) / sum_(j<={n_terms}) ...",
                    twin=eq(vals[1] * C, rhs[2]))
        ctx.require(all_(v >= 0 for v in vals.values()), "cutoff-values", "negative probability")
        s = 0
        for k in range(1, n_terms + 1):
            s = s + vals[k]
        ctx.require(same(s, 1), "cutoff-normalised-on-truncated-support", f"sum_(k<={n_terms}) p(k) != 1", twin=eq(s, 2))
        return
    raise ValueError(kind)
