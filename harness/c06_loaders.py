"""C06 - manual, empirical, marginal and function loaders yield the documented law; the
type-dispatching entry point gives the same distribution as the direct constructor."""
import itertools

from symx.core import all_, any_, close, eq

PROPERTY = "C06"
FUNCTIONS = ["gcmpy.joint_degree.joint_degree_loaders.joint_degree_manual.JointDegreeManual",
             "joint_degree_empirical.JointDegreeEmpirical", "joint_degree.JointDegree.convert_jds_to_jdd", "JointDegree.normalise_jdd",
             "joint_degree_marginal.JointDegreeMarginal (create_jdd_directly, generate_all_joint_degrees, evaluate_prob_of_joint_degree, "
             "draw_from_analytical_joint, create_jdd_by_sampling)", "joint_degree_function.JointDegreeFunction.create_jdd",
             "gcmpy.joint_degree.joint_degree_distribution.JointDegreeDistribution.load_joint_degree",
             "gcmpy.joint_degree.joint_degree_factory.JointDegreeFactory.resolve_joint_degree"]
STUBS = ["random.choices -> fresh indices restricted to positive weights", "marginal / joint callables are harness lookup tables of fresh positive reals"]
BOUNDS = {
    "quick": "manual: 1-3 keys with symbolic weights; empirical: sequences of length 1..3 with symbolic entries 0..2 over 1-2 topologies (forked at "
             "Counter); marginal direct and function: 1-2 topologies, lower bound 0..1, interval width 1..3 (bounds are solver variables), every "
             "marginal value a fresh positive real; marginal sampling: n_samples<=3 for one topology, 2 for two topologies, width<=2-3; each through the constructor "
             "and the dispatcher (enum and string type; two-topology sampling through the constructor only)",
    "thorough": "empirical length<=4; width<=4; 3 topologies for marginal direct; n_samples<=3",
}
OUTSIDE = "wider intervals, more topologies; the sampling mode's convergence to the product law (statistical: what is decided is that each dimension is " \
          "drawn by one weighted primitive over its degree interval with the marginal as weights and that the table is the frequency of the stacked draws); " \
          "a sampling mode that does not draw through random.choices (e.g. numpy searchsorted over random.random() variates, which numpy turns into " \
          "floats at the C boundary) is not judged: the sampling obligations are then never reached and the check stops with a harness error rather than a verdict; " \
          "the Poisson-based fixtures of the always-failing tests (see C19)"
ASSUMPTIONS = ["'inside the given bounds' is read as the interval [kmin, kmax-1] or [kmin, kmax] (both accepted, nothing else)",
               "the function loader may expose fp itself or any positive multiple of it (same distribution)",
               "marginal callables return positive values"]
EXPECTED_LABELS = ["manual-identity", "empirical-frequency", "marginal-support", "marginal-product-law", "marginal-sampling-draws",
                   "marginal-sampling-table", "function-support", "function-values", "dispatch-equals-direct"]
VALIDATE_EVERY = 25


def configs(tier):
    q = tier == "quick"
    cfgs = []
    for via in ("direct", "enum", "str"):
        cfgs.append({"name": f"manual-{via}", "kind": "manual", "via": via})
        for K in (1, 2):
            cfgs.append({"name": f"empirical-K{K}-{via}", "kind": "empirical", "K": K, "L": (3 if K == 1 or not q else 2) if q else (4 if K == 1 else 3), "via": via})
            cfgs.append({"name": f"marginal-direct-K{K}-{via}", "kind": "marginal", "K": K, "W": 3 if q else 4, "via": via})
            cfgs.append({"name": f"function-K{K}-{via}", "kind": "function", "K": K, "W": 3 if q else 4, "via": via})
        cfgs.append({"name": f"marginal-sampling-K1-{via}", "kind": "sampling", "K": 1, "W": 2, "n": 2, "via": via})
    cfgs.append({"name": "marginal-direct-big-box", "kind": "bigbox", "via": "direct"})
    for via in ("direct", "enum"):
        cfgs.append({"name": f"marginal-direct-K2-zero-values-{via}", "kind": "marginal", "K": 2, "W": 3, "via": via, "zero_at": True})
        cfgs.append({"name": f"function-vectorisable-{via}", "kind": "vecfn", "via": via})
    cfgs.append({"name": "marginal-sampling-K1-direct-n3", "kind": "sampling", "K": 1, "W": 3, "n": 3, "via": "direct"})
    cfgs.append({"name": "marginal-sampling-K2-direct", "kind": "sampling", "K": 2, "W": 2, "n": 2 if q else 3, "via": "direct"})
    if not q:
        cfgs.append({"name": "marginal-sampling-K2-enum", "kind": "sampling", "K": 2, "W": 1, "n": 2, "via": "enum"})
    if not q:
        cfgs.append({"name": "marginal-direct-K3-direct", "kind": "marginal", "K": 3, "W": 2, "via": "direct"})
    return cfgs


def warm_up(cls):
    """another loader of the same class, with different parameters, is built first: class-level state would leak into the one under test"""
    from gcmpy.names.joint_degree_names import JointDegreeNames as JN

    name = cls.__name__
    try:
        if name == "JointDegreeManual":
            cls({JN.JDD: {(9, 9): 1.0}, JN.MOTIF_SIZES: [2, 3]})
        elif name == "JointDegreeEmpirical":
            cls({JN.JDS: [(7,), (7,), (8,)], JN.MOTIF_SIZES: [2]})
        elif name == "JointDegreeMarginal":
            cls({JN.MOTIF_SIZES: [2, 3], JN.ARR_FP: [lambda k: 0.25 + k, lambda k: 1.0 / (1 + k)], JN.LOW_HIGH_DEGREE_BOUND: [(0, 3), (1, 4)]})
        elif name == "JointDegreeFunction":
            cls({JN.MOTIF_SIZES: [2, 3], JN.FP: lambda jd: 1.0 + sum(jd), JN.LOW_HIGH_DEGREE_BOUND: [(0, 2), (0, 2)]})
    except Exception:  # noqa  (failures of the loader itself show up in the run under test)
        pass


def make(ctx, cls, typ, params, via):
    from gcmpy.joint_degree.joint_degree_distribution import JointDegreeDistribution
    from gcmpy.joint_degree.joint_degree_type import JointDegreeType
    from gcmpy.names.joint_degree_names import JointDegreeNames as JN

    warm_up(cls)
    if via == "direct":
        obj = cls(params)
        warm_up(cls)  # ... and a later object of the same class must not change the one under test
        return obj
    params = dict(params)
    params[JN.JOINT_DEGREE_TYPE] = JointDegreeType(typ) if via == "enum" else typ
    obj = JointDegreeDistribution.load_joint_degree(params)
    ctx.require(type(obj) is cls, "dispatch-equals-direct", f"dispatcher returned {type(obj).__name__} for type {typ!r}", twin=(type(obj) is not cls))
    warm_up(cls)
    return obj


def bounds(ctx, K, W):
    out = []
    for i in range(K):
        lo = ctx.fork_int(ctx.int(f"lo{i}", 0, 1))
        hi = ctx.fork_int(ctx.int(f"hi{i}", lo + 1, lo + W))
        out.append((lo, hi))
    return out


def readings(bnds):
    """the two admissible supports: [kmin, kmax-1] and [kmin, kmax] per topology"""
    excl = list(itertools.product(*[range(lo, hi) for lo, hi in bnds]))
    incl = list(itertools.product(*[range(lo, hi + 1) for lo, hi in bnds]))
    return excl, incl


def path(ctx, cfg):
    from gcmpy.joint_degree.joint_degree_loaders.joint_degree_empirical import JointDegreeEmpirical
    from gcmpy.joint_degree.joint_degree_loaders.joint_degree_function import JointDegreeFunction
    from gcmpy.joint_degree.joint_degree_loaders.joint_degree_manual import JointDegreeManual
    from gcmpy.joint_degree.joint_degree_loaders.joint_degree_marginal import JointDegreeMarginal
    from gcmpy.names.joint_degree_names import JointDegreeNames as JN

    kind, via = cfg["kind"], cfg["via"]
    if kind == "manual":
        nk = ctx.fork_int(ctx.int("nkeys", 1, 3))
        keys = [(j, (j * 2) % 3) for j in range(nk)]
        W = {k: ctx.real(f"w{j}", 0) for j, k in enumerate(keys)}
        given = dict(W)
        obj = ctx.guard("loader-raised", make, ctx, JointDegreeManual, "manual", {JN.JDD: given, JN.MOTIF_SIZES: [2, 3]}, via)
        jdd = obj.jdd
        ctx.require(list(given.keys()) == keys and all_(eq(given[k], W[k]) for k in keys), "manual-identity", "the caller's dictionary was modified")
        ok = isinstance(jdd, dict) and list(jdd.keys()) == keys
        ctx.require(all_(eq(jdd[k], W[k]) for k in keys) if ok else False, "manual-identity", f"manual loader exposes {jdd} for keys {keys}",
                    twin=all_(eq(jdd[k], W[k] + 1) for k in keys) if ok else None)
        ctx.require(all_(jdd[k] >= 0 for k in keys) if ok else False, "manual-identity", "negative value")
        return
    if kind == "empirical":
        K = cfg["K"]
        L = ctx.fork_int(ctx.int("len", 1, cfg["L"]))
        seq = [tuple(ctx.int(f"e{j}_{i}", 0, 2) for i in range(K)) for j in range(L)]
        obj = ctx.guard("loader-raised", make, ctx, JointDegreeEmpirical, "empirical", {JN.JDS: list(seq), JN.MOTIF_SIZES: [2, 3][:K]}, via)
        conc = [tuple(ctx.fork_int(x) for x in t) for t in seq]
        cnt = {}
        for t in conc:
            cnt[t] = cnt.get(t, 0) + 1
        jdd = obj.jdd
        ok = set(jdd) == set(cnt) and all(close(jdd[t] * L, cnt[t]) for t in cnt)
        ctx.require(ok, "empirical-frequency", f"sequence {conc}: empirical distribution {jdd}",
                    twin=(set(jdd) == set(cnt) and all(close(jdd[t] * L, cnt[t] + 1) for t in cnt)))
        ctx.observe("jdd", sorted((list(k), v) for k, v in jdd.items()))
        return
    if kind == "vecfn":
        # a joint function written with arithmetic only, so it also accepts numpy arrays; not symmetric in its arguments
        fpv = lambda jd: (1.0 + jd[0]) / (2.0 + jd[1]) ** 2
        bn = [(0, 2), (1, 4)]
        obj = ctx.guard("loader-raised", make, ctx, JointDegreeFunction, "function", {JN.MOTIF_SIZES: [2, 3], JN.FP: fpv, JN.LOW_HIGH_DEGREE_BOUND: bn}, via)
        jdd = obj.jdd
        ex, inc = readings(bn)
        which = ex if sorted(jdd) == sorted(ex) else inc if sorted(jdd) == sorted(inc) else None
        ctx.require(which is not None, "function-support", f"vectorisable fp: support {sorted(jdd)}", sig="function-support")
        if which:
            j0 = which[0]
            bad = [jd for jd in which if not close(float(jdd[jd]) * fpv(j0), float(jdd[j0]) * fpv(jd))]
            ctx.require(not bad, "function-values", f"vectorisable fp: values at {bad} are not fp(jd) (up to a common factor)", sig="function-values:vectorised")
        return
    if kind == "bigbox":
        # 320 x 321 cells with concrete marginals: still the exact normalised product on the full box, and no random draw in direct mode
        f0 = lambda k: 1.0 / (1 + k)
        f1 = lambda k: 0.5 + (k % 7)
        params = {JN.MOTIF_SIZES: [2, 3], JN.ARR_FP: [f0, f1], JN.LOW_HIGH_DEGREE_BOUND: [(0, 320), (1, 322)]}
        from symx.core import PathAbort

        ctx.draw_budget = ctx.draws + 8  # direct mode needs no randomness at all: a handful of draws is already a finding
        try:
            obj = ctx.guard("loader-raised", JointDegreeMarginal, params)
        except PathAbort as a:
            if a.reason != "budget":
                raise
            ctx.draw_budget = None
            ctx.fail("marginal-support", "direct mode on a 320 x 321 box asked the RNG for samples (use_sampling is False)", sig="direct-mode-uses-rng")
            return
        ctx.draw_budget = None
        jdd = obj.jdd
        ctx.require(len(ctx.rng_log) == 0, "marginal-support", f"direct mode drew random numbers: {[c['fn'] for c in ctx.rng_log][:5]}", sig="direct-mode-uses-rng")
        n0, n1 = 320, 321
        full = len(jdd) in (n0 * n1, (n0 + 1) * (n1 + 1)) and all(isinstance(k, tuple) and len(k) == 2 for k in jdd)
        ctx.require(full, "marginal-support", f"big box: {len(jdd)} keys, expected {n0 * n1} (or {(n0 + 1) * (n1 + 1)})", sig="big-box-support")
        if full:
            hi0, hi1 = (320, 322) if len(jdd) == n0 * n1 else (321, 323)
            Z = sum(f0(a) for a in range(0, hi0)) * sum(f1(b) for b in range(1, hi1))
            probe = [(0, 1), (5, 9), (319, 321), (100, 200), (17, 1)]
            bad = [k for k in probe if k not in jdd or not close(jdd[k] * Z, f0(k[0]) * f1(k[1]))]
            ctx.require(not bad and close(sum(jdd.values()), 1.0), "marginal-product-law", f"big box: wrong values at {bad}; total {sum(jdd.values())}", sig="big-box-values")
        return
    K = cfg["K"]
    bnds = bounds(ctx, K, cfg["W"])
    excl, incl = readings(bnds)
    table = {}

    def f(i, k):
        k = ctx.fork_int(k)
        if (i, k) not in table:
            if cfg.get("zero_at") and ctx.fork_bool(ctx.bool(f"zero{i}_{k}")):
                table[(i, k)] = 0.0  # a marginal may vanish at some degrees (e.g. even degrees only)
            else:
                table[(i, k)] = ctx.real(f"f{i}_{k}", 0, lo_strict=True)
        return table[(i, k)]

    desc = f"{kind} bounds={bnds}"
    if cfg.get("zero_at"):
        # decide the zero pattern up front; every dimension keeps a positive value inside the smaller reading of its range,
        # so that some joint degree has positive mass (otherwise no distribution is described)
        for i, (lo, hi) in enumerate(bnds):
            for k in range(lo, hi + 1):
                f(i, k)
            if all(isinstance(table[(i, k)], float) and table[(i, k)] == 0.0 for k in range(lo, hi)):
                from symx.core import PathAbort
                raise PathAbort("precondition false")
    if kind == "marginal":
        params = {JN.MOTIF_SIZES: [2, 3, 4][:K], JN.ARR_FP: [lambda k, i=i: f(i, k) for i in range(K)], JN.LOW_HIGH_DEGREE_BOUND: list(bnds)}
        obj = ctx.guard("loader-raised", make, ctx, JointDegreeMarginal, "marginal", params, via)
        jdd = obj.jdd
        sup = sorted(jdd)
        which = excl if sup == sorted(excl) else incl if sup == sorted(incl) else None
        ctx.require(which is not None, "marginal-support", f"{desc}: support {sup} is neither {sorted(excl)} nor {sorted(incl)}",
                    twin=(sup == sorted(excl) + [None]))
        if which is None:
            return

        def prod(jd):
            p = 1
            for i, k in enumerate(jd):
                p = p * f(i, k)
            return p

        Z = 0
        for jd in which:
            Z = Z + prod(jd)
        if cfg.get("zero_at"):
            if not isinstance(Z, (int, float)):
                ctx.assume(Z > 0)
            elif Z <= 0:
                return  # every cell vanishes: no distribution is described
        ctx.require(all_(eq(jdd[jd] * Z, prod(jd)) for jd in which), "marginal-product-law", f"{desc}: values are not the normalised product of the marginals",
                    twin=all_(eq(jdd[jd] * Z, prod(jd) * 2) for jd in which), logic="QF_NRA")
        tot = 0
        for jd in which:
            tot = tot + jdd[jd]
        ctx.require(all_([eq(tot, 1)] + [jdd[jd] >= 0 for jd in which]), "marginal-product-law", f"{desc}: not a probability distribution", logic="QF_NRA")
        ctx.observe("jdd", sorted((list(k), v) for k, v in jdd.items()))
        return
    if kind == "function":
        ftab = {}

        def fp(jd):
            jd = tuple(ctx.fork_int(x) for x in jd)
            if jd not in ftab:
                ftab[jd] = ctx.real("fp_" + "_".join(map(str, jd)), 0, lo_strict=True)
            return ftab[jd]

        params = {JN.MOTIF_SIZES: [2, 3][:K], JN.FP: fp, JN.LOW_HIGH_DEGREE_BOUND: list(bnds)}
        obj = ctx.guard("loader-raised", make, ctx, JointDegreeFunction, "function", params, via)
        jdd = obj.jdd
        sup = sorted(jdd) if isinstance(jdd, dict) else None
        which = None if sup is None else excl if sup == sorted(excl) else incl if sup == sorted(incl) else None
        ctx.require(which is not None, "function-support", f"{desc}: support {sup} is neither {sorted(excl)} nor {sorted(incl)}",
                    twin=(sup == sorted(incl) + [None]))
        if which is None:
            return
        j0 = which[0]
        ctx.require(all_([eq(jdd[jd] * fp(j0), jdd[j0] * fp(jd)) for jd in which] + [jdd[j0] > 0]), "function-values",
                    f"{desc}: values are not (a positive multiple of) the joint function", twin=all_(eq(jdd[jd] * fp(j0), jdd[j0] * fp(jd) * 2) for jd in which),
                    logic="QF_NRA")
        ctx.observe("jdd", sorted((list(k), v) for k, v in jdd.items()))
        return
    if kind == "sampling":
        n = cfg["n"]
        params = {JN.MOTIF_SIZES: [2, 3][:K], JN.ARR_FP: [lambda k, i=i: f(i, k) for i in range(K)], JN.LOW_HIGH_DEGREE_BOUND: list(bnds),
                  JN.USE_SAMPLING: True, JN.N_SAMPLES: n}
        obj = ctx.guard("loader-raised", make, ctx, JointDegreeMarginal, "marginal", params, via)
        jdd = obj.jdd
        recs = [c for c in ctx.rng_log if c["fn"] == "choices"]
        if any(c["fn"] != "choices" for c in ctx.rng_log):
            ctx.note("undecided: sampling mode does not draw through random.choices")
            return
        # the dispatcher calls create_jdd() a second time: the last K draws made the exposed table
        ok = len(recs) >= K and len(recs) % K == 0
        ctx.require(ok, "marginal-sampling-draws", f"{desc}: {len(recs)} weighted draws for {K} dimensions", twin=(not ok))
        if not ok:
            return
        last = recs[-K:]
        conds = []
        for i, rec in enumerate(last):
            lo, hi = bnds[i]
            pop = [ctx.fork_int(x) for x in rec["population"]]
            okp = pop in (list(range(lo, hi)), list(range(lo, hi + 1))) and rec["k"] == n and rec["weights"] is not None
            ctx.require(okp, "marginal-sampling-draws", f"{desc}: dimension {i} drawn from population {pop} with k={rec['k']}", twin=(not okp))
            if okp:
                conds.extend(eq(w, f(i, k)) for w, k in zip(rec["weights"], pop))
        ctx.require(all_(conds), "marginal-sampling-draws", f"{desc}: weights are not the marginals", twin=all_(eq(w, f(0, lo) + 1) for w in last[0]["weights"]) if conds else None)
        stacked = list(zip(*[[ctx.fork_int(x) for x in rec["result"]] for rec in last]))
        cnt = {}
        for t in stacked:
            cnt[t] = cnt.get(t, 0) + 1
        okt = set(jdd) == set(cnt) and all(close(jdd[t] * n, cnt[t]) for t in cnt)
        ctx.require(okt, "marginal-sampling-table", f"{desc}: draws {stacked} give table {jdd}", twin=(set(jdd) == set(cnt) and all(close(jdd[t] * n, cnt[t] + 1) for t in cnt)))
        ctx.observe("jdd", sorted((list(k), v) for k, v in jdd.items()))
        return
    raise ValueError(kind)
