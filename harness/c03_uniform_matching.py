"""C03 - stub matching is uniformly random (configuration-model measure).

The distributional claim is decomposed into what the code controls and what CPython controls:
 1. every column's canonical stub list is randomised by exactly one full-length uniform primitive (shuffle record);
 2. the map 'arrangement produced by the RNG -> slot sequence seen by the build callbacks' is well defined and
    injective (two solver queries over two symbolic permutations pi, pi'); an injective map between arrangements of one
    finite multiset is a bijection, so the uniform measure is pushed forward to the uniform measure;
 3. independence: the slots of column k do not change when another column's permutation is replaced;
 4. exact model counting (blocking clauses) on small sequences: every arrangement is reached, all with the same number
    prod_v d[v][k]! of permutations; four degree-1 vertices give the three perfect matchings 8/8/8 of 24.
"""
import itertools
from math import factorial

import z3

from harness import gen_common as gc
from symx.core import Ctx, SymInt, all_, any_, eq, implies, not_

PROPERTY = "C03"
FUNCTIONS = ["gcmpy.gcm_algorithm.gcm_algorithm_fast.GCMAlgorithmFast.random_clustered_graph",
             "gcmpy.gcm_algorithm.gcm_algorithm_custom_motifs.GCMAlgorithmCustomMotifs.random_clustered_graph"]
STUBS = ["random.shuffle / random.sample(k=n) -> fresh symbolic permutation (uniformity of the primitive itself is trusted)",
         "random.randrange / choice (tally configurations only) -> fresh bounded integer, every value forked: one path per resolution, "
         "path probability = product of 1/range; the table over all paths of a configuration is judged after the exploration"]
BOUNDS = {
    "quick": "items 1-3 for every joint degree sequence with N<=3, entries 0..2 (<=6 stubs per column) over 5 fast and 4 custom motif "
             "configurations; item 4 (exact tallies over all permutations) for 7 fixed sequences with <=4 stubs per column",
    "thorough": "items 1-3 up to N=4 (<=8 stubs per column); item 4 up to 5 stubs and for two columns jointly (<=4+3 stubs)",
}
OUTSIDE = "stub lists longer than 8; generators that randomise through real-valued draws (sort by random()) are reported as undecided; " \
          "generators that randomise through bounded discrete draws (hand-written Fisher-Yates, ...) are decided by the exact tallies only " \
          "(items 1-3 do not apply to them); the quality of CPython's shuffle / randrange"
ASSUMPTIONS = ["random.shuffle is uniform over permutations and successive calls are independent (CPython)",
               "lemma: an injective map between arrangements of the same finite multiset is a bijection"]
EXPECTED_LABELS = ["uniform-primitive-per-column", "arrangement-map-injective", "arrangement-map-well-defined", "columns-independent", "tally-uniform"]
VALIDATE_EVERY = 15


def configs(tier):
    q = tier == "quick"
    cfgs = []

    def add(alg, motif, N, D):
        cfgs.append({"name": f"struct-{alg}-{motif}-N{N}D{D}", "kind": "struct", "alg": alg, "motif": motif, "N": N, "D": D, "via": "direct"})

    for motif in ("k2", "k2k3", "k3", "c3k2", "star3k2"):
        add("fast", motif, 3, 2)
    for motif in ("bare", "tri", "hub2", "bare+tri"):
        add("motifs", motif, 3, 2)
    if not q:
        for motif in ("k2", "k2k3", "c3k2"):
            add("fast", motif, 4, 2)
        for motif in ("bare", "hub2", "bare+tri"):
            add("motifs", motif, 4, 2)

    def tally(alg, motif, d):
        cfgs.append({"name": f"tally-{alg}-{motif}-{d}", "kind": "tally", "alg": alg, "motif": motif, "N": len(d), "D": max(max(r) for r in d),
                     "d": d, "via": "direct"})

    # very long stub lists (size thresholds that switch algorithms): only 'one full-length uniform primitive per column' is checked
    for n in (6000, 60000):
        cfgs.append({"name": f"long-fast-k2k3-N{n}", "kind": "long", "alg": "fast", "motif": "k2k3", "N": n, "via": "direct"})
    cfgs.append({"name": "long-motifs-bare-N60000", "kind": "long", "alg": "motifs", "motif": "bare", "N": 60000, "via": "direct"})
    tally("fast", "k2", [[1], [1], [1], [1]])
    tally("motifs", "bare", [[1], [1], [1], [1]])
    tally("fast", "k2", [[2], [1], [1]])
    tally("fast", "k3", [[1], [1], [1]])
    tally("fast", "k2k3", [[1, 1], [1, 1], [0, 1]])
    tally("motifs", "hub2", [[1, 0], [0, 1], [0, 1]])
    tally("motifs", "tri", [[2], [1], [0]])
    # the distribution of the SECOND call on one generator object (its first call's shuffles are held fixed)
    for alg, motif, d in (("fast", "k2", [[1], [1], [1], [1]]), ("motifs", "bare", [[2], [1], [1]]), ("fast", "k2k3", [[1, 1], [1, 1], [0, 1]])):
        cfgs.append({"name": f"tally-2ndcall-{alg}-{motif}-{d}", "kind": "tally", "alg": alg, "motif": motif, "N": len(d), "D": max(max(r) for r in d),
                     "d": d, "via": "direct", "history": True, "first_identity": True})
    if not q:
        tally("fast", "k2", [[2], [2], [1], [1]]) if False else None
        tally("fast", "k2", [[1], [1], [1], [1], [0]])
        tally("fast", "k2", [[2], [1], [1], [0]])
        tally("fast", "k2k3", [[2, 1], [1, 1], [1, 1]])
        tally("motifs", "hub2", [[1, 2], [1, 0], [0, 2]])
        tally("motifs", "bare+tri", [[1, 1], [1, 1], [2, 1]])
        tally("fast", "c4", [[1], [1], [1], [1]])
    return [c for c in cfgs if c]


def records_by_column(r):
    """assign one full-length uniform-primitive record to every joint-degree column (None if missing)"""
    K = len(r.spec["sizes"])
    used = set()
    out = []
    for k in range(K):
        canon = sorted(v for v in range(r.N) for _ in range(r.d[v][k]))
        hit = None
        for i, rec in enumerate(r.shuffles):
            if i in used:
                continue
            full = rec["n"] == len(canon) and (rec["fn"] == "shuffle" or rec.get("k") == rec["n"])
            try:
                same = sorted(int(x) for x in (rec.get("orig") or rec.get("population"))) == canon
            except Exception:  # noqa
                same = False
            if full and same:
                hit = i
                used.add(i)
                break
        out.append((hit, canon))
    return out


def sub_run(ctx, cfg, names_to_values):
    """concrete re-run of the generator with some RNG variables replaced"""
    vals = dict(ctx.values)
    vals.update(names_to_values)
    sub = Ctx(mode="conc", values=vals)
    prev = Ctx.current
    Ctx.current = sub
    try:
        return gc.run_generator(sub, cfg)
    finally:
        Ctx.current = prev


def perm_vars(rec):
    return rec.get("perm") or rec.get("idx") or []


def subst(x, mapping):
    if isinstance(x, SymInt):
        if x._cv is not None:
            return x._cv
        return SymInt(z3.substitute(x.e, *mapping))
    return x


def path_long(ctx, cfg):
    """N vertices of joint degree 1 in every column: the generator must hand each column's full stub list to the uniform primitive once"""
    from gcmpy.gcm_algorithm.gcm_algorithm_custom_motifs import GCMAlgorithmCustomMotifs
    from gcmpy.gcm_algorithm.gcm_algorithm_fast import GCMAlgorithmFast
    from gcmpy.names.gcm_algorithm_names import GCMAlgorithmNames

    spec = gc.motif_spec(cfg["motif"])
    N = cfg["N"]
    K = len(spec["sizes"])
    params = {GCMAlgorithmNames.MOTIF_SIZES: list(spec["sizes"]), GCMAlgorithmNames.BUILD_FUNCTIONS: list(spec["builds"]),
              GCMAlgorithmNames.EDGE_NAMES: list(spec["names"])}
    if spec["kind"] == "custom":
        params[GCMAlgorithmNames.MOTIF_INDICES] = [list(i) for i in spec["indices"]]
    gen = (GCMAlgorithmCustomMotifs if cfg["alg"] == "motifs" else GCMAlgorithmFast)(params)
    ctx.shuffle_concrete = lambda c, orig, rec: list(range(len(orig) - 1, -1, -1))  # any fixed order: only the call is observed
    jds = [tuple([1] * K) for _ in range(N)]
    ctx.guard("generator-raised", gen.random_clustered_graph, jds)
    recs = [r for r in ctx.rng_log if r["fn"] in ("shuffle", "sample") and r["n"] == N]
    other = [r["fn"] for r in ctx.rng_log if r["fn"] not in ("shuffle", "sample")]
    if other:
        ctx.note("undecided: generator draws through RNG primitives other than shuffle/sample")
        return
    ok = len(recs) == K and all(sorted(r["orig"]) == list(range(N)) for r in recs)
    ctx.require(ok, "uniform-primitive-per-column", f"{cfg['alg']}/{cfg['motif']} with {N} stubs per column: {len(recs)} full-length shuffles for {K} columns "
                f"(rng calls: {[(r['fn'], r['n']) for r in ctx.rng_log][:6]})", sig="uniform-primitive-per-column:long-list")


DISCRETE = ("randrange", "choice")


def only_permutation_primitives(ctx, allow_discrete=False):
    """the push-forward argument is built on full-length uniform permutation primitives; a generator that draws through anything else
    cannot be decided by it: stop at the first such call instead of forking over its values.  The exact tallies (item 4) also accept
    bounded discrete draws (randrange / choice, e.g. a hand-written Fisher-Yates): there every resolution of the draws is one path
    and the probabilities are added up over the paths (finalize)."""
    from symx.core import PathAbort

    def flt(fn):
        if fn in ("shuffle", "sample") or (allow_discrete and fn in DISCRETE):
            return
        ctx.note("undecided: generator draws through RNG primitives other than shuffle/sample" + (" / randrange / choice" if allow_discrete else ""))
        raise PathAbort("undecidable RNG mechanism")

    ctx.rng_filter = flt


def expected_labels(agg):
    # a generator that randomises through bounded discrete draws is decided by the tallies alone (items 1-3 do not apply to it)
    if any(k.startswith("discrete-draw generator") for k in agg.notes):
        return ["tally-uniform"]
    return EXPECTED_LABELS


def arrangements(d):
    """number of distinct slot sequences (product over columns of multinomials) for the fixed sequence d"""
    K = len(d[0])
    want = 1
    for k in range(K):
        n = sum(row[k] for row in d)
        mult = 1
        for row in d:
            mult *= factorial(row[k])
        want *= factorial(n) // mult
    return want


def finalize(cfg, tag, records, complete):
    """tallies of a discrete-draw generator: every path is one resolution of its randrange/choice draws with probability prod 1/range;
    the slot sequences must all be reached with the same total probability"""
    from fractions import Fraction

    if tag != "tally":
        return []
    desc = f"{cfg['alg']}/{cfg['motif']} jds={cfg['d']}"
    prob = {}
    for r in records:
        p = r["payload"]
        key = repr(p["slots"])
        prob[key] = prob.get(key, 0) + Fraction(p["w"][0], p["w"][1])
    total = sum(prob.values())
    if not complete or total != 1:
        return [{"label": "tally-uniform", "undecided": f"discrete-draw tally incomplete (total probability {total}): undecided"}]
    want = arrangements(cfg["d"])
    ok = len(prob) == want and set(prob.values()) == {Fraction(1, want)}
    shown = sorted((k, str(v)) for k, v in prob.items())[:8]
    return [{"label": "tally-uniform", "ok": ok, "sig": "tally-uniform:discrete-draws",
             "detail": f"{desc}: summed over all {len(records)} resolutions of the generator's discrete draws, {len(prob)} slot sequences are reached "
                       f"(expected {want}, each with probability 1/{want}); probabilities e.g. {shown}"}]


def path(ctx, cfg):
    only_permutation_primitives(ctx, allow_discrete=cfg["kind"] == "tally")
    if cfg["kind"] == "tally":
        return path_tally(ctx, cfg)
    if cfg["kind"] == "long":
        return path_long(ctx, cfg)
    r = ctx.guard("generator-raised", gc.run_generator, ctx, cfg)
    desc = f"{cfg['alg']}/{cfg['motif']} jds={r.d}"
    K = len(r.spec["sizes"])
    other = [c for c in ctx.rng_log if c["fn"] not in ("shuffle", "sample")]
    if other:
        ctx.note("undecided: generator draws through RNG primitives other than shuffle/sample")
        return
    recs = records_by_column(r)
    slots = [gc.column_slots(r, k) for k in range(K)]
    for k, (ri, canon) in enumerate(recs):
        if len(set(canon)) < 2:
            continue  # a single arrangement: nothing to randomise
        ctx.require(ri is not None, "uniform-primitive-per-column",
                    f"{desc}: column {k} (stubs {canon}) is not randomised by one full-length shuffle of its stub list; rng calls: "
                    f"{[(c['fn'], c['n']) for c in ctx.rng_log]}", twin=(ri is None), sig="uniform-primitive-per-column")
    for k, (ri, canon) in enumerate(recs):
        if ri is None or len(set(canon)) < 2:
            continue
        rec = r.shuffles[ri]
        n = rec["n"]
        P = perm_vars(rec)
        A = list(rec["result"])
        S = slots[k]
        alt = [ctx.int(f"alt{k}_{j}", 0, n - 1) for j in range(n)]
        valid = all_(alt[a] != alt[b] for a in range(n) for b in range(a + 1, n))
        if ctx.mode == "sym":
            mapping = [(p.e, a.e) for p, a in zip(P, alt) if isinstance(p, SymInt) and p._cv is None]
            fixed = [eq(a, p._cv) for p, a in zip(P, alt) if isinstance(p, SymInt) and p._cv is not None] + \
                    [eq(a, p) for p, a in zip(P, alt) if not isinstance(p, SymInt)]
            valid = all_([valid] + fixed)
            A2 = [subst(x, mapping) for x in A]
            S2all = [[subst(x, mapping) for x in slots[kk]] for kk in range(K)]
        else:
            try:
                r2 = sub_run(ctx, cfg, dict(zip(rec["names"], alt))) if valid else None
            except BaseException:  # noqa
                r2 = None
            if r2 is None:
                continue
            rec2 = r2.shuffles[ri]
            A2 = list(rec2["result"])
            S2all = [gc.column_slots(r2, kk) for kk in range(K)]
        S2 = S2all[k]
        same_len = len(S) == len(A) and len(S2) == len(A2)
        ctx.require(same_len, "arrangement-map-injective", f"{desc}: column {k}: {len(S)} slots reach the callbacks for {len(A)} stubs")
        if not same_len:
            continue
        A_eq = all_(eq(x, y) for x, y in zip(A, A2))
        S_eq = all_(eq(x, y) for x, y in zip(S, S2))
        ctx.require(implies(valid, not_(all_([not_(A_eq), S_eq]))), "arrangement-map-injective",
                    lambda k=k: f"{desc}: column {k}: two different arrangements of the stub list give the same slot sequence",
                    twin=implies(valid, not_(all_([not_(A_eq), not_(S_eq)]))), sig="arrangement-map-injective")
        ctx.require(implies(valid, not_(all_([A_eq, not_(S_eq)]))), "arrangement-map-well-defined",
                    lambda k=k: f"{desc}: column {k}: the slot sequence is not a function of the arrangement", sig="arrangement-map-well-defined")
        for kk in range(K):
            if kk != k and slots[kk]:
                ctx.require(implies(valid, all_(eq(x, y) for x, y in zip(slots[kk], S2all[kk])) if len(slots[kk]) == len(S2all[kk]) else False),
                            "columns-independent", lambda k=k, kk=kk: f"{desc}: slots of column {kk} change with the permutation of column {k}",
                            twin=implies(valid, S_eq), sig="columns-independent")
    ctx.observe("slots", [list(s) for s in slots])
    if ctx.mode == "sym":
        # the push-forward argument needs the exploration not to have split on the permutation itself
        pv = {p.e.get_id() for rec in r.shuffles for p in perm_vars(rec) if isinstance(p, SymInt)}
        n_dep = sum(1 for kind, _ in ctx.trace[len(ctx.trace) - 0:] if False)
        dep = 0
        for c in ctx.pc:
            if z3.is_distinct(c) or (z3.is_app(c) and c.decl().kind() in (z3.Z3_OP_LE, z3.Z3_OP_GE) and c.num_args() == 2
                                     and (z3.is_int_value(c.arg(1)) or z3.is_int_value(c.arg(0)))):
                continue
            stack, seen = [c], set()
            while stack:
                x = stack.pop()
                if x.get_id() in seen:
                    continue
                seen.add(x.get_id())
                if x.get_id() in pv:
                    dep += 1
                    break
                stack.extend(x.children())
        if dep:
            ctx.note("struct items 2-3 weakened: the generator's control flow depends on the permutation (tallies decide)")


def path_tally(ctx, cfg):
    d = cfg["d"]
    r0 = {}

    def pre(ctx_, cfg_, spec):
        return None

    # fix the sequence through the precondition, then run symbolically
    orig_sym_jds = gc.sym_jds

    def fixed_jds(c, cf, spec, tag=""):
        jds = orig_sym_jds(c, cf, spec, tag)
        for v, row in enumerate(jds):
            for k, x in enumerate(row):
                c.assume(eq(x, d[v][k]))
        return jds

    gc.sym_jds = fixed_jds
    try:
        r = ctx.guard("generator-raised", gc.run_generator, ctx, cfg)
    finally:
        gc.sym_jds = orig_sym_jds
    desc = f"{cfg['alg']}/{cfg['motif']} jds={r.d}"
    K = len(r.spec["sizes"])
    other = [c for c in ctx.rng_log if c["fn"] not in ("shuffle", "sample")]
    if other:
        # bounded discrete draws: this path is ONE resolution of them; its probability is the product of 1/range over the draws whose
        # value the generator looked at.  The table over all paths is judged in finalize().
        from fractions import Fraction

        slots = [gc.column_slots(r, k) for k in range(K)]
        flat = [x for s_ in slots for x in s_]
        if any(isinstance(x, SymInt) and x._cv is None for x in flat) or any(rec["n"] >= 2 for rec in r.shuffles):
            ctx.note("undecided: discrete draws mixed with permutation primitives or left symbolic in the outcome")
            return
        w = Fraction(1)
        for c in [c for c in getattr(r, "first_rng", []) if c["fn"] in DISCRETE] + other:  # an earlier call's draws are part of the resolution
            res = c["idx"] if c["fn"] == "choice" else c["result"]
            size = c["n"] if c["fn"] == "choice" else c["hi"] - c["lo"] + 1
            ctx.fork_int(res)  # every draw is resolved on this path (a draw only compared, not indexed with, would otherwise stay a range)
            w /= size
        ctx.note("discrete-draw generator: tallies are added up over the paths")
        ctx.contribute("tally", {"slots": [[int(x) for x in s_] for s_ in slots], "w": [w.numerator, w.denominator]})
        ctx.observe("slots", [[int(x) for x in s_] for s_ in slots])
        return
    slots = [gc.column_slots(r, k) for k in range(K)]
    recs = [rec for rec in r.shuffles if rec["n"] >= 2]
    outcomes = []  # one tuple of slot tuples per RNG outcome
    if ctx.mode == "sym":
        over = [p.e for rec in recs for p in perm_vars(rec) if isinstance(p, SymInt)]
        models = ctx.all_models(over, limit=6000) if over else [ctx.get_model()]

        def ev(m, x):
            return m.eval(x.e, model_completion=True).as_long() if isinstance(x, SymInt) and x._cv is None else int(x._cv if isinstance(x, SymInt) else x)

        for m in models:
            outcomes.append(tuple(tuple(ev(m, x) for x in s) for s in slots))
        n_rng = len(models)
    else:
        n_rng = 0
        for perms in itertools.product(*[itertools.permutations(range(rec["n"])) for rec in recs]):
            vals = {}
            for rec, p in zip(recs, perms):
                vals.update(dict(zip(rec["names"], p)))
            r2 = sub_run(ctx, cfg, vals)
            outcomes.append(tuple(tuple(int(x) for x in gc.column_slots(r2, k)) for k in range(K)))
            n_rng += 1
    tally = {}
    for o in outcomes:
        tally[o] = tally.get(o, 0) + 1
    want_arr = 1
    want_mult = 1
    total = 1
    for k in range(K):
        n = sum(d[v][k] for v in range(len(d)))
        total *= factorial(n)
        mult = 1
        for v in range(len(d)):
            mult *= factorial(d[v][k])
        want_mult *= mult
        want_arr *= factorial(n) // mult
    ok = n_rng == total and len(tally) == want_arr and set(tally.values()) == {want_mult}
    ctx.require(ok, "tally-uniform",
                f"{desc}: over all {n_rng} RNG outcomes (expected {total}) {len(tally)} slot sequences are reached (expected {want_arr}) with "
                f"multiplicities {sorted(set(tally.values()))} (expected {want_mult} each)", twin=(len(tally) == want_arr + 1), sig="tally-uniform")
    # the property's own example: four degree-1 vertices -> three perfect matchings, 8 permutations each
    if d == [[1], [1], [1], [1]] and cfg["motif"] in ("k2", "bare"):
        match = {}
        for o, c in tally.items():
            s = o[0]
            key = frozenset(frozenset(s[i:i + 2]) for i in range(0, 4, 2))
            match[key] = match.get(key, 0) + c
        okm = sorted(match.values()) == [8, 8, 8]
        ctx.require(okm, "tally-uniform", f"{desc}: perfect matchings reached with counts {sorted(match.values())}, expected [8, 8, 8]",
                    twin=(sorted(match.values()) == [8, 8]), sig="tally-matchings")
    ctx.observe("tally", sorted([list(map(list, o)), c] for o, c in tally.items()))
