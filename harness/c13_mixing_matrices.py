"""C13 - mixing matrices extracted from a network are exact, symmetric and repeatable."""
import itertools
from fractions import Fraction

import networkx as nx

from symx.core import any_, close

PROPERTY = "C13"
FUNCTIONS = ["gcmpy.tools.joint_excess_joint_degree.JointExcessJointDegree.__init__", "JointExcessJointDegree.get_ejks",
             "JointExcessJointDegree.get_ejk", "JointExcessJointDegree.count_edge_types",
             "JointExcessJointDegree.resolve_excess_degree_keys", "gcmpy.tools.joint_excess_degree.JointExcessDegree.get_ejk"]
STUBS = []
BOUNDS = {
    "quick": "every simple graph on 3 vertices and every graph on 4 vertices with <= 4 edges (adjacency bits are solver "
             "variables), every assignment of 1-2 topology names to the edges, every vertex annotation from a pool of 3 "
             "joint-degree tuples (n=3) / 2 tuples (n=4); get_ejks() called three times on one extractor",
    "thorough": "graphs on <= 4 vertices with all edge subsets and a pool of 3 annotations, 5 vertices with <= 5 edges and a pool of 2",
}
OUTSIDE = "more than 5 vertices, more than 2 topologies; annotation entries are drawn from {1,2,3}; everything is forked, so " \
          "this is bounded exhaustive symbolic exploration (the matrices are concrete numbers on each path)"
ASSUMPTIONS = ["annotations are arbitrary tuples and are not required to equal the vertices' real degrees (the extractor only reads them)",
               "float results are compared with exact rationals to 1e-9 relative"]
EXPECTED_LABELS = ["entries-exact", "symmetric", "sums-to-one", "repeatable", "overall-degree-variant"]
VALIDATE_EVERY = 200
POOL = [(1, 1), (2, 1), (1, 3)]
NAMES = ["2-clique", "2-clique-red"]  # one name is a prefix of the other


def configs(tier):
    if tier == "quick":
        return [{"name": "n3-T2-pool3", "n": 3, "T": 2, "pool": 3, "maxe": 3},
                {"name": "n4-T1-pool2", "n": 4, "T": 1, "pool": 2, "maxe": 6},
                {"name": "n4-T2-pool2-e3", "n": 4, "T": 2, "pool": 2, "maxe": 3}]
    return [{"name": "n3-T2-pool3", "n": 3, "T": 2, "pool": 3, "maxe": 3},
            {"name": "n4-T2-pool3-e4", "n": 4, "T": 2, "pool": 3, "maxe": 4},
            {"name": "n4-T1-pool3", "n": 4, "T": 1, "pool": 3, "maxe": 6},
            {"name": "n5-T2-pool2-e4", "n": 5, "T": 2, "pool": 2, "maxe": 4},
            {"name": "n5-T1-pool2-e6", "n": 5, "T": 1, "pool": 2, "maxe": 6}]


def build_network(ctx, cfg):
    """fork an annotated network: adjacency bits, edge topologies, vertex annotations"""
    n, T = cfg["n"], cfg["T"]
    pairs = list(itertools.combinations(range(n), 2))
    bits = [ctx.bool(f"adj{a}{b}") for a, b in pairs]
    ctx.assume(any_(bits))
    cnt = 0
    for b in bits:
        from symx.core import ite
        cnt = cnt + ite(b, 1, 0)
    ctx.assume(cnt <= cfg["maxe"])
    edges = [p for p, b in zip(pairs, bits) if ctx.fork_bool(b)]
    tops = [NAMES[ctx.fork_int(ctx.int(f"top{a}{b}", 0, T - 1))] for a, b in edges]
    ann = [POOL[ctx.fork_int(ctx.int(f"ann{v}", 0, cfg["pool"] - 1))] for v in range(n)]
    G = nx.Graph()
    G.add_nodes_from(range(n))
    for v in range(n):
        G.nodes[v]["joint_degree"] = ann[v]
    for (a, b), t in zip(edges, tops):
        G.add_edge(a, b, topology=t, motif_ids=0)
    return G, edges, tops, ann


def oracle_matrix(edges, tops, ann, name, i):
    ends = {}
    E = 0
    for (u, v), t in zip(edges, tops):
        if t != name:
            continue
        E += 1
        a = tuple(x - (1 if k == i else 0) for k, x in enumerate(ann[u]))
        b = tuple(x - (1 if k == i else 0) for k, x in enumerate(ann[v]))
        ends[a + b] = ends.get(a + b, 0) + 1
        ends[b + a] = ends.get(b + a, 0) + 1
    return {k: Fraction(c, 2 * E) for k, c in ends.items()}, E


def same(m, ref):
    return set(m) == set(ref) and all(close(float(m[k]), float(ref[k])) for k in ref)


def path(ctx, cfg):
    from gcmpy.names.network_names import NetworkNames
    from gcmpy.names.tools_names import ToolsNames
    from gcmpy.tools.joint_excess_degree import JointExcessDegree
    from gcmpy.tools.joint_excess_joint_degree import JointExcessJointDegree

    G, edges, tops, ann = build_network(ctx, cfg)
    H = nx.Graph()
    order = list(G.nodes())
    if ctx.fork_bool(ctx.bool("reverse_insertion")):
        order.reverse()
    H.add_nodes_from(order)
    for v in G.nodes():
        H.nodes[v][NetworkNames.JOINT_DEGREE] = G.nodes[v]["joint_degree"]
    for a, b, d in (list(G.edges(data=True)) if order[0] == 0 else [(b, a, d) for a, b, d in reversed(list(G.edges(data=True)))]):
        H.add_edge(a, b)
        H.edges[a, b][NetworkNames.TOPOLOGY] = d["topology"]
        H.edges[a, b][NetworkNames.MOTIF_IDS] = 0
    names = ["".join(list(t)) for t in NAMES[: cfg["T"]]]  # equal strings, but not the objects stored on the edges
    assert all(a is not b for a, b in zip(names, NAMES))
    desc = f"edges={list(zip(edges, tops))} annotations={ann}"

    def run():
        # warm-up: a different network goes through another extractor object first (class- or module-level state would leak)
        W = nx.Graph()
        for v, a in enumerate([(2, 2), (1, 2), (3, 1)]):
            W.add_node(v)
            W.nodes[v][NetworkNames.JOINT_DEGREE] = a
        for (a, b), t in (((0, 1), names[0]), ((1, 2), names[-1]), ((0, 2), names[0])):
            W.add_edge(a, b)
            W.edges[a, b][NetworkNames.TOPOLOGY] = t
            W.edges[a, b][NetworkNames.MOTIF_IDS] = 0
        JointExcessJointDegree({ToolsNames.NETWORK: W, ToolsNames.EDGE_NAMES: names}).get_ejks()
        ex = JointExcessJointDegree({ToolsNames.NETWORK: H, ToolsNames.EDGE_NAMES: names})
        results = []
        for call in range(3):
            res = ex.get_ejks()
            results.append({t: dict(res.ejks[t]) for t in names if t in res.ejks})
        return results

    results = ctx.guard("extractor-raised", run)
    for call, mats in enumerate(results):
        for i, t in enumerate(names):
            ref, E = oracle_matrix(edges, tops, ann, t, i)
            m = mats.get(t, {})
            lab = "entries-exact" if call == 0 else "repeatable"
            ctx.require(same(m, ref), lab, lambda m=m, ref=ref, t=t, call=call:
                        f"{desc}: call #{call + 1} matrix[{t}]={m} expected {({k: str(v) for k, v in ref.items()})}",
                        twin=same(m, {k: v / 2 for k, v in ref.items()}) if ref else None, sig=f"{lab}")
            if call == 0 and ref:
                half = len(next(iter(m))) // 2 if m else 0
                ctx.require(all(close(m.get(k, 0.0), m.get(k[half:] + k[:half], -1.0)) for k in m), "symmetric", f"{desc}: matrix[{t}] not symmetric")
                ctx.require(close(sum(m.values()), 1.0), "sums-to-one", f"{desc}: matrix[{t}] sums to {sum(m.values())}",
                            twin=close(sum(m.values()), 0.5))
                # row sums = fraction of t-edge ends whose own vertex has excess tuple a
                rows = {}
                for k, v in m.items():
                    rows[k[:half]] = rows.get(k[:half], 0.0) + v
                ends = {}
                for (u, v), tt in zip(edges, tops):
                    if tt == t:
                        for x in (u, v):
                            a = tuple(y - (1 if kk == i else 0) for kk, y in enumerate(ann[x]))
                            ends[a] = ends.get(a, 0) + 1
                ctx.require(same(rows, {a: Fraction(c, 2 * E) for a, c in ends.items()}), "row-sums", f"{desc}: row sums of matrix[{t}] = {rows}")
    ctx.observe("matrices", [[sorted((list(k), round(v, 12)) for k, v in mats[t].items()) for t in names if t in mats] for mats in results])
    # overall-degree variant
    ejk = ctx.guard("extractor-raised", JointExcessDegree.get_ejk, H)
    deg = {v: sum(1 for e in edges if v in e) for v in range(cfg["n"])}
    ends = {}
    for u, v in edges:
        a, b = deg[u] - 1, deg[v] - 1
        ends[(a, b)] = ends.get((a, b), 0) + 1
        ends[(b, a)] = ends.get((b, a), 0) + 1
    ref = {k: Fraction(c, 2 * len(edges)) for k, c in ends.items()}
    ctx.require(same(ejk, ref), "overall-degree-variant", f"{desc}: overall-degree matrix {ejk} expected {({k: str(v) for k, v in ref.items()})}",
                twin=same(ejk, {k: v / 2 for k, v in ref.items()}))
