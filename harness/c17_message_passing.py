"""C17 - message passing returns the fixed point of the motif-cover equations.

Step obligation (inductive over iterations and runs): with phi and EVERY message replaced by fresh reals,
each real calculate_H_tau(focal, label) must write exactly the bond-percolation expectation of that motif
with u_j = product of the other motifs' messages at j - a polynomial identity, so it holds at every
iteration of every run.  Whole-run obligation: theoretical(phi) with symbolic phi equals a reference
Gauss-Seidel sweep built from the oracle."""
import itertools

import networkx as nx

from oracles.percolation import edge_monotonicity_pairs, expectation, expectation_multi
from symx.core import all_, close, eq

PROPERTY = "C17"
FUNCTIONS = ["gcmpy.message_passing.message_passing.MessagePassing.theoretical", "MessagePassing.calculate_H_tau", "MessagePassing.resolve_equation",
             "gcmpy.message_passing.message_passing_mixin.MessagePassingMixin (label parsing)",
             "gcmpy.message_passing.equations.automated_equation.AutomatedEquation.automated_equation"]
STUBS = []
BOUNDS = {
    "quick": "pool of 7 cover-labelled networks (two triangles through one vertex built from a sorted edge list so that its adjacency alternates between the motifs; two triangles sharing a vertex; triangle+pendant edge+diamond; ring of three triangles; K4 with a tail; "
             "4-cycle+edge+triangle; chorded 5-cycle with two tails); step identity for every (vertex, motif) pair with all messages symbolic; whole run with symbolic phi: 0, 1, 2 and 25 (the default) iterations "
             "on the tree-like networks, 0, 1, 2 on the ring; query histories phi_a, phi_b, phi_a; range and per-message monotonicity of every step; "
             "phi-monotonicity of the step: direct query for 2- and 3-vertex motifs; for motifs of >= 4 vertices and <= 6 edges (K4, 4-cycle, diamond, chorded 5-cycle) "
             "through the per-edge decomposition (diagonal identity, affine in every edge probability, corner inequalities for every edge and every 0/1 setting of the others)",
    "thorough": "ring with 3 iterations; one more network (K5 hub, 10 edges, per-edge decomposition too); the direct phi-monotonicity query also attempted for >= 4-vertex motifs (reported undecided on timeout)",
}
OUTSIDE = "convergence of the iteration to the fixed point and 'away from slow-convergence points' (analysis, not encodable: the claim is reduced to the step " \
          "identity + the sweep structure); phi-monotonicity for motifs of >= 4 vertices is decided up to the corner lemma below " \
          "(the direct nonlinear query stays undecided in z3 and cvc5); floating-point rounding; motifs sharing more than one vertex"
ASSUMPTIONS = ["floats are exact rationals",
               "corner lemma (>= 4-vertex motifs only): a polynomial that is affine in each of p_1..p_m attains its maximum over [0,1]^m at a corner; hence "
               "corner inequalities f(e occupied) <= f(e unoccupied) give df/dp_e <= 0 on the cube and f(phi,..,phi) is non-increasing in phi",
               "the step obligations use the fields _phi/_H_tau and the method calculate_H_tau named in the property's anchors (skipped with a note if absent)"]
EXPECTED_LABELS = ["step-identity", "whole-run", "history", "zero-at-phi-0", "step-range", "step-monotone-in-message", "step-monotone-in-phi",
                   "phi-monotone/diagonal", "phi-monotone/multilinear", "phi-monotone/edgewise"]
VALIDATE_EVERY = 1
TIME_LIMIT = {"quick": 900, "thorough": 3600}


def M(kind, vs):
    if kind == "clique":
        es = list(itertools.combinations(vs, 2))
    elif kind == "cycle":
        es = [(vs[i], vs[(i + 1) % len(vs)]) for i in range(len(vs))]
    elif kind == "diamond":
        es = [(vs[0], vs[1]), (vs[1], vs[2]), (vs[2], vs[3]), (vs[3], vs[0]), (vs[0], vs[2])]
    elif kind == "c5chord":
        es = [(vs[i], vs[(i + 1) % 5]) for i in range(5)] + [(vs[0], vs[2])]
    return {"vs": list(vs), "es": es, "key": len(vs)}


NETS = {
    "two-triangles": [M("clique", [0, 1, 2]), M("clique", [2, 3, 4])],
    "tri-edge-diamond": [M("clique", [0, 1, 2]), M("clique", [2, 3]), M("diamond", [3, 4, 5, 6])],
    "triangle-ring": [M("clique", [0, 1, 2]), M("clique", [2, 3, 4]), M("clique", [4, 5, 0])],
    "k4-tail": [M("clique", [10, 1, 2, 3]), M("clique", [3, 4]), M("clique", [4, 5])],
    "c4-edge-tri": [M("cycle", [0, 1, 2, 3]), M("clique", [0, 4]), M("clique", [2, 5, 6])],
    # built from ONE sorted edge list (see build): the neighbours of vertex 5 alternate between its two motifs
    "interleaved": [M("clique", [0, 2, 5]), M("clique", [1, 3, 5]), M("clique", [3, 4])],
    "k5-hub": [M("clique", [0, 1, 2, 3, 4]), M("clique", [4, 5]), M("clique", [0, 6, 7])],
    "c5chord": [M("c5chord", [0, 1, 2, 3, 4]), M("clique", [2, 5]), M("clique", [4, 6])],
}
LOOPY = {"triangle-ring"}


def configs(tier):
    q = tier == "quick"
    names = ["two-triangles", "tri-edge-diamond", "triangle-ring", "k4-tail", "c4-edge-tri", "c5chord", "interleaved"] + ([] if q else ["k5-hub"])
    cfgs = []
    for n in names:
        cfgs.append({"name": f"step-{n}", "kind": "step", "net": n, "tier": tier})
        T = (2 if q else 3) if n in LOOPY else 25
        cfgs.append({"name": f"run-{n}-T{T}", "kind": "run", "net": n, "T": T})
        # on tree-like networks every message becomes exactly 1 after a few sweeps, so the long run is a trivial identity there:
        # the short runs (0, 1, 2 sweeps from the 0.5 start) are the informative ones
        for t in (0, 1, 2):
            if t != T:
                cfgs.append({"name": f"run-{n}-T{t}", "kind": "run", "net": n, "T": t})
        cfgs.append({"name": f"concrete-{n}", "kind": "concrete", "net": n})
    cfgs.append({"name": "history-two-triangles", "kind": "history", "net": "two-triangles", "T": 3})
    cfgs.append({"name": "history-tri-edge-diamond", "kind": "history", "net": "tri-edge-diamond", "T": 2})
    return cfgs


def build(net):
    G = nx.Graph()
    rows = []
    for mid, m in enumerate(NETS[net]):
        label = f"{m['key']}-{m['vs']}-{m['es']}-{mid}"
        for a, b in m["es"]:
            rows.append((min(a, b), max(a, b), label))
    if net == "interleaved":
        rows.sort()  # one sorted edge list instead of motif by motif
    for a, b, label in rows:
        G.add_edge(a, b, CoverLabel=label)
    if net == "two-triangles":
        G.add_nodes_from([90, 91])  # two isolated vertices: they count in N but belong to no motif
    return G


def motifs_of(net, v):
    return [mid for mid, m in enumerate(NETS[net]) if v in m["vs"]]


def oracle_step(net, H, phi, focal, mid):
    m = NETS[net][mid]
    u = {}
    for j in m["vs"]:
        if j == focal:
            continue
        p = 1
        for nu in motifs_of(net, j):
            if nu != mid:
                p = p * H[(j, nu)]
        u[j] = p
    return expectation(m["es"], focal, phi, u)


def reference_run(net, G, phi, T):
    H = {(v, mid): 0.5 for mid, m in enumerate(NETS[net]) for v in m["vs"]}
    label_id = {}
    for a, b, d in G.edges(data=True):
        label_id[(a, b)] = int(d["CoverLabel"].split("-")[-1])
    for _ in range(T):
        for a, b in G.edges():
            mid = label_id[(a, b)]
            H[(a, mid)] = oracle_step(net, H, phi, a, mid)
            H[(b, mid)] = oracle_step(net, H, phi, b, mid)
    tot = 0
    for v in G.nodes():
        p = 1
        for mid in motifs_of(net, v):
            p = p * H[(v, mid)]
        tot = tot + p
    return 1 - tot / G.order()


def phi_monotone_by_edges(ctx, net, H0, phi, focal, mid, desc):
    """phi-monotonicity of the (already identified) expectation for motifs of >= 4 vertices, where the direct nonlinear query is
    undecided: split the single phi into one probability per edge.  Solver-decided: (a) the per-edge form restricted to the diagonal
    p_e = phi is the expectation the library's value was proved equal to; (b) it is multilinear (affine in every p_e); (c) at every
    0/1 setting of the other edges, occupying one more edge cannot increase the value (u in [0,1]).  Left to the stated lemma: an
    affine-in-each-variable function attains its extrema over the cube at its corners, hence d/dp_e <= 0 everywhere and the
    diagonal restriction is non-increasing."""
    from symx.core import implies  # noqa

    m = NETS[net][mid]
    es = m["es"]
    u = {}
    for j in m["vs"]:
        if j != focal:
            pr = 1
            for nu in motifs_of(net, j):
                if nu != mid:
                    pr = pr * H0[(j, nu)]
            u[j] = pr
    ref = expectation(es, focal, phi, u)
    diag = expectation_multi(es, focal, {i: phi for i in range(len(es))}, u)
    ctx.require(eq(diag, ref), "phi-monotone/diagonal", f"{desc}: per-edge expectation on the diagonal differs from the expectation",
                twin=eq(diag, ref + phi), logic="QF_NRA", timeout=60000)
    ps = {i: ctx.real(ctx.uniq(f"p{i}"), 0, 1) for i in range(len(es))}
    full = expectation_multi(es, focal, ps, u)
    for e in range(len(es)):
        hi = expectation_multi(es, focal, ps, u, fixed={e: 1})
        lo = expectation_multi(es, focal, ps, u, fixed={e: 0})
        ctx.require(eq(full, ps[e] * hi + (1 - ps[e]) * lo), "phi-monotone/multilinear", f"{desc}: not affine in the probability of edge {es[e]}",
                    twin=eq(full, ps[e] * hi + (1 - ps[e]) * lo + ps[e]) if e == 0 else None, logic="QF_NRA", timeout=60000)
    # free symbols for the u's: the corner inequalities are needed for every u in [0,1]
    uu = {j: ctx.real(ctx.uniq(f"uu{j}"), 0, 1) for j in u}
    for c0, c1 in edge_monotonicity_pairs(es, focal):
        a = 1
        for v in sorted(c0):
            if v != focal:
                a = a * uu[v]
        b = 1
        for v in sorted(c1):
            if v != focal:
                b = b * uu[v]
        ctx.require(b <= a, "phi-monotone/edgewise", f"{desc}: enlarging the component {sorted(c0)} -> {sorted(c1)} increases the product",
                    twin=(b < a), logic="QF_NRA", timeout=20000)


def path(ctx, cfg):
    from gcmpy.message_passing.message_passing import MessagePassing

    net = cfg["net"]
    G = build(net)
    pairs = [(v, mid) for mid, m in enumerate(NETS[net]) for v in m["vs"]]
    kind = cfg["kind"]
    if kind == "step":
        mp = MessagePassing(G)
        if not (hasattr(mp, "calculate_H_tau") and hasattr(mp, "_H_tau")):
            ctx.note("step obligations skipped: _H_tau / calculate_H_tau not present")
            ctx.require(True, "step-identity")
            return
        phi = ctx.real("phi", 0, 1)
        H0 = {(v, mid): ctx.real(f"H_{v}_{mid}", 0, 1) for v, mid in pairs}
        for focal, mid in pairs:
            m = NETS[net][mid]
            label = f"{m['key']}-{m['vs']}-{m['es']}-{mid}"
            mp._phi = phi
            mp._H_tau = dict(H0)
            ctx.guard("step-raised", mp.calculate_H_tau, focal, label)
            val = mp._H_tau[(focal, mid)]
            ref = oracle_step(net, H0, phi, focal, mid)
            desc = f"{net}: message of vertex {focal} through motif {m['vs']}"
            ctx.require(eq(val, ref), "step-identity", f"{desc} is not the exact expectation with u_j = product of j's other motifs' messages",
                        twin=eq(val, ref + phi), logic="QF_NRA")
            untouched = all(mp._H_tau[k] is H0[k] for k in H0 if k != (focal, mid))
            ctx.require(untouched, "step-identity", f"{desc}: other messages were modified")
            ctx.require(all_([val >= 0, val <= 1]), "step-range", f"{desc}: can leave [0,1] for messages and phi in [0,1]", twin=(val <= phi), logic="QF_NRA", timeout=20000)
            # monotone in every message it reads
            others = [k for k in H0 if k[0] in m["vs"] and k[0] != focal and k[1] != mid]
            for k in others[:6]:
                x2 = ctx.real(ctx.uniq(f"alt_{k[0]}_{k[1]}"), 0, 1)
                H1 = dict(H0)
                H1[k] = x2
                ref2 = oracle_step(net, H1, phi, focal, mid)
                from symx.core import implies
                ctx.require(implies(x2 >= H0[k], ref2 >= ref), "step-monotone-in-message", f"{desc}: not monotone in message {k}",
                            twin=implies(x2 >= H0[k], ref2 > ref), logic="QF_NRA", timeout=20000)
            if len(m["vs"]) >= 4 and len(m["es"]) <= (6 if cfg["tier"] == "quick" else 10):
                phi_monotone_by_edges(ctx, net, H0, phi, focal, mid, desc)
            if len(m["vs"]) <= 3 or cfg["tier"] == "thorough":
                phi2 = ctx.real(ctx.uniq("phi2"), 0, 1)
                ref2 = oracle_step(net, H0, phi2, focal, mid)
                from symx.core import implies
                lab = "step-monotone-in-phi" if len(m["vs"]) <= 3 else "step-monotone-in-phi(>=4 vertices, attempted)"
                ctx.require(implies(phi2 >= phi, ref2 <= ref), lab, f"{desc}: failure probability not non-increasing in phi",
                            twin=implies(phi2 >= phi, ref2 < ref) if len(m["vs"]) <= 3 else None, logic="QF_NRA", timeout=20000 if len(m["vs"]) <= 3 else 60000)
        return
    if kind == "run":
        phi = ctx.real("phi", 0, 1)
        mp = MessagePassing(G, iterations=cfg["T"])
        val = ctx.guard("run-raised", mp.theoretical, phi)
        ref = reference_run(net, G, phi, cfg["T"])
        ctx.require(eq(val, ref), "whole-run", f"{net}: theoretical(phi) after {cfg['T']} sweeps differs from the reference Gauss-Seidel sweep of the exact equations",
                    twin=eq(val, ref + phi + 1), logic="QF_NRA", timeout=120000)
        ctx.observe("S", val)
        return
    if kind == "concrete":
        # one sweep touches every (vertex, motif) pair; value 0 at phi=0; value in [0,1] at a few phi
        mp = MessagePassing(G, iterations=1)
        seen = []
        inner = getattr(mp, "calculate_H_tau", None)
        if inner is not None:
            def spy(focal, label):
                seen.append((int(focal), int(label.split("-")[-1])))
                return inner(focal, label)
            mp.calculate_H_tau = spy
            ctx.guard("run-raised", mp.theoretical, 0.37)
            if seen:
                ctx.require(set(seen) == set(pairs), "sweep-covers-every-pair", f"{net}: one sweep updated {sorted(set(seen))}, expected {sorted(pairs)}",
                            twin=(set(seen) == set(pairs[1:])))
            else:
                # the driver does not go through the public calculate_H_tau (inlined / split helpers): which pairs a sweep updates is then
                # decided by the whole-run identities with 1 and 2 sweeps alone
                ctx.note("sweep coverage not observable at calculate_H_tau (driver does not call it): left to the whole-run identity")
        mp2 = MessagePassing(G)
        z = ctx.guard("run-raised", mp2.theoretical, 0.0)
        ctx.require(close(z, 0.0), "zero-at-phi-0", f"{net}: theoretical(0) = {z}", twin=close(z, 1.0))
        vals = [ctx.guard("run-raised", mp2.theoretical, p) for p in (0.1, 0.35, 0.6, 0.85, 1.0)]
        ok = all(-1e-12 <= v <= 1 + 1e-12 for v in vals) and all(b >= a - 1e-9 for a, b in zip(vals, vals[1:]))
        ctx.require(ok, "range-and-monotone-samples", f"{net}: values {vals} at phi=0.1,0.35,0.6,0.85,1.0 are not in [0,1] / non-decreasing")
        ctx.observe("vals", vals)
        return
    if kind == "history":
        T = cfg["T"]
        pa, pb = ctx.real("phi_a", 0, 1), ctx.real("phi_b", 0, 1)
        mp = MessagePassing(G, iterations=T)
        r1 = ctx.guard("run-raised", mp.theoretical, pa)
        r2 = ctx.guard("run-raised", mp.theoretical, pb)
        r3 = ctx.guard("run-raised", mp.theoretical, pa)
        f1 = MessagePassing(build(net), iterations=T).theoretical(pa)
        f2 = MessagePassing(build(net), iterations=T).theoretical(pb)
        ctx.require(all_([eq(r1, f1), eq(r2, f2), eq(r3, f1)]), "history", f"{net}: queries phi_a, phi_b, phi_a on one object differ from fresh objects",
                    twin=eq(r2, f1), logic="QF_NRA", timeout=120000)
        ctx.observe("r", [r1, r2, r3])
        return
    raise ValueError(kind)
