"""C11 - MCMC rewiring preserves vertices, degrees and motif structure.

Inductive-step formulation: the pre-state is ANY clean motif network inside the bound (motif member
ids are solver variables), rewire() with convergence_limit=0 performs exactly one accepted swap, and
the post-state must again be a clean motif network of the same shapes - which closes the induction
over swap histories of any length.  Target entries and the Metropolis draw stay symbolic reals; the
edge draws are forked."""
from harness import mcmc_common as mc

PROPERTY = "C11"
FUNCTIONS = ["gcmpy.tools.markov_chain_monte_carlo_rewiring.MarkovChainMonteCarloRewiring.__init__", "rewire", "get_all_edges", "get_hashmap",
             "is_edge_choice_suitable", "get_other_vertex", "get_joint_excess_degree_key", "get_swapped_joint_excess_degree_key",
             "append_proposal_edges", "swap_condition", "gcmpy.tools.draw_set.DrawSet (real)", "gcmpy.tools.proposal_edge.ProposalEdge",
             "gcmpy.tools.joint_excess_joint_degree_keys_view.JointExcessJointDegreeKeysView"]
STUBS = ["random.choice (DrawSet.draw) -> fresh bounded index, forked over the edges", "random.random (Metropolis) -> fresh real in [0,1)",
         "target matrices: lazy symmetric dictionaries whose looked-up entries are fresh positive reals (full support)"]
BOUNDS = {
    "quick": "pre-states: every placement of [edge,edge], [tri,edge] on <=4 vertices, each with every assignment of at most 2 optional extra "
             "first-topology motifs to the vertex annotations (window of a larger network); the consistent templates chain2, mixed, star2 (6-7 vertices), "
             "trideg (5 triangles on 12 vertices, triangle swaps are accepted there) and diamond2pair (two diamonds whose corners mix two edge topologies); one accepted swap (convergence_limit=0), search_limit in {1,2}; <=8 RNG draws; rewire() called twice on one object (template chain2); defaults construct",
    "thorough": "additionally [edge,edge,edge] on 4-5, [tri,tri] on 5 (<=3 extras) and 6, [tri,edge,edge], [tri,tri,edge] on 5 vertices, templates tri4, tri3fan and c4pair (4-cycles), "
                "two accepted swaps (convergence_limit=1) on chain2 and [edge,edge]; <=9 draws",
}
OUTSIDE = "continuations after a failed attempt are pruned as 'repeat-state' once the hook has verified that draw site, counters, working graph and " \
          "edge set are identical to an earlier point of the same run (memoryless rejection loop; relies on the local names of rewire(); the key also fingerprints every attribute of the rewiring object other than " \
          "its per-proposal scratch fields, so state hidden in the object disables the pruning); " \
          "motif shapes other than 2-cliques, triangles and 4-cycles; more than 7 vertices; runs needing more RNG draws than the budget (counted as " \
          "paths_cut['budget']); the documented default depth 10*|E| itself (covered by the induction)"
ASSUMPTIONS = ["vertex annotations are either the true motif counts or the true counts plus one extra first-topology motif per vertex (the "
               "network read as a window of a larger clean network) - without this no legitimate swap exists on networks this small",
               "induction: a clean motif network stays a clean motif network of the same shapes under one accepted swap => under any number",
               "the target has full support (every looked-up pairing has positive weight)"]
EXPECTED_LABELS = ["input-untouched", "vertices-and-annotations", "no-self-loop", "edge-count", "per-topology-degrees", "motif-shapes", "defaults"]
DRAW_BUDGET = {"quick": 8, "thorough": 10}
VALIDATE_EVERY = 60
TIME_LIMIT = {"quick": 900, "thorough": 7200}


def configs(tier):
    q = tier == "quick"
    cfgs = []

    def add(shapes, V, conv=0, search=1, extras=True, max_extras=2):
        cfgs.append({"name": f"{'+'.join(shapes)}-V{V}-conv{conv}-search{search}" + (f"-extras{max_extras}" if extras else ""), "shapes": shapes, "V": V,
                     "conv": conv, "search": search, "kind": "step", "extras": extras, "max_extras": max_extras})

    def tpl(name, conv=0, search=1, second=False, node_order=None, label_offset=0, extra_isolated=0):
        cfgs.append({"name": f"template-{name}-conv{conv}-search{search}" + ("-second-rewire" if second else "") + (f"-nodes-{node_order}" if node_order else "")
                     + (f"-labels+{label_offset}" if label_offset else "") + (f"-isolated{extra_isolated}" if extra_isolated else ""),
                     "template": name, "conv": conv, "search": search, "kind": "template", "second": second, "node_order": node_order,
                     "label_offset": label_offset, "extra_isolated": extra_isolated})

    add(["edge", "edge"], 4)
    add(["edge", "edge"], 3, search=2)
    add(["tri", "edge"], 4)
    for t in ("chain2", "trideg", "mixed", "diamond2pair"):
        tpl(t)
    tpl("star2", search=2)
    tpl("chain2", second=True)  # rewire() called twice on one object: the second result is checked
    tpl("chain2", node_order="desc")  # vertices inserted in descending order
    tpl("star2", node_order="desc")
    tpl("chain2", extra_isolated=2)  # two vertices of joint degree zero
    tpl("c4pair")  # 4-cycles (corners of a non-complete motif) sharing a vertex
    tpl("chain2", label_offset=1000)  # vertex labels 1000.. (not small-int objects)
    tpl("star2", search=2, label_offset=1000)
    cfgs.append({"name": "defaults", "kind": "defaults", "shapes": ["tri", "edge"], "V": 4})
    if not q:
        add(["edge", "edge", "edge"], 4)
        add(["tri", "tri"], 5, max_extras=3)
        add(["tri", "edge", "edge"], 5)
        tpl("tri4")
        add(["tri", "tri"], 6, extras=False)
        add(["tri", "tri", "edge"], 5)
        add(["edge", "edge", "edge"], 5, search=2)
        tpl("tri3fan")
        tpl("mixed", search=2)
        tpl("chain2", conv=1)
        add(["edge", "edge"], 4, conv=1)
    return cfgs


def path(ctx, cfg):
    from gcmpy.names.tools_names import ToolsNames as TN
    from gcmpy.tools.markov_chain_monte_carlo_rewiring import MarkovChainMonteCarloRewiring

    if cfg["kind"] == "template":
        cfg, placement = mc.template_cfg(cfg)
        extras = None
    else:
        placement = mc.fork_placement(ctx, cfg)
        extras = mc.fork_extras(ctx, cfg)
    net, used = mc.build_network(cfg, placement, extras)
    before = mc.snapshot(net.G)
    target, tabs = mc.make_target(ctx, net, used, "full", reverse_dict=len(used) > 1 and cfg.get("template") in ("mixed", "twotopo"))
    if cfg["kind"] == "defaults":
        obj = ctx.guard("defaults", MarkovChainMonteCarloRewiring, {TN.NETWORK: net, TN.EJKS: target})
        ne = net.G.number_of_edges()
        ok = obj.convergence_limit == 10 * ne and obj.search_limit == 25
        ctx.require(ok, "defaults", f"defaults: convergence_limit={obj.convergence_limit!r} (expected {10 * ne}), search_limit={obj.search_limit!r}", twin=(not ok))
        return
    mc.install_repeat_pruning(ctx)
    params = {TN.NETWORK: net, TN.EJKS: target, TN.CONVERGENCE_LIMIT: cfg["conv"], TN.SEARCH_LIMIT: cfg["search"]}
    obj = ctx.guard("constructor-raised", MarkovChainMonteCarloRewiring, params)
    G2 = ctx.guard("rewire-raised", obj.rewire)
    if cfg.get("second"):
        first = mc.snapshot(G2)
        G2 = ctx.guard("rewire-raised", obj.rewire)
        ctx.require(mc.snapshot(net.G) == before, "input-untouched", f"placement={placement}: the network was modified by the first rewire()")
    same = mc.snapshot(net.G) == before
    ctx.require(same, "input-untouched", f"placement={placement}: rewire() modified the network it was given", twin=(not same))
    mc.check_structure(ctx, cfg, placement, before, G2)
