"""C14 - degree-distribution algebra is consistent and invertible (identities over symbolic reals)."""
import itertools

import networkx as nx

from symx.core import all_, close, eq

PROPERTY = "C14"
FUNCTIONS = ["gcmpy.tools.joint_excess_from_jdd.JointExcessfromJDD.get_joint_excess_distributions",
             "JointExcessfromJDD.convert_list_qks_to_dict", "gcmpy.tools.joint_degree_from_excess.JointDegreeFromExcess.invert_single",
             "JointDegreeFromExcess.observations_from_dict", "JointDegreeFromExcess.get_joint_degree_distribution",
             "gcmpy.tools.joint_excess_from_ejk.JointExcessFromEjk.get_excess_joint_distributions",
             "gcmpy.tools.joint_excess_joint_degree_matrices.JointExcessJointDegreeMatrices.get_excess_degree_keys",
             "gcmpy.tools.average_joint_degree_from_jdd.AverageJointDegreeFromJDD.get_average_joint_degrees",
             "gcmpy.tools.joint_degree_distribution_from_network.JointDegreeDistributionFromNetwork.get_joint_degree_distribution"]
STUBS = []
BOUNDS = {
    "quick": "joint degree distributions with 1..3 keys (every ordered choice of distinct keys; entries 0..2 for 1-2 topologies, "
             "0..1 for 3-4 topologies), every probability a positive symbolic real (normalised and unnormalised), three lists "
             "of topology names; mixing matrices over <= 3 excess keys with symbolic entries; 6 clean annotated networks",
    "thorough": "up to 4 keys (canonical order for the 4th), entries 0..3 for 1-2 topologies, 0..2 for 3, 0..1 for 4",
}
OUTSIDE = "more than 4 keys or 4 topologies, degrees above 3; floating-point rounding"
ASSUMPTIONS = ["floats are exact rationals; identities are decided cross-multiplied in QF_NRA",
               "the inversion is only required when some key is positive in every topology (stated precondition)"]
EXPECTED_LABELS = ["excess-formula", "excess-sums-to-one", "inversion", "row-sums", "mean-degree", "network-consistency"]
VALIDATE_EVERY = 20
NAME_SETS = [["2-clique", "3-clique", "4-clique", "5-clique"], ["2-clique-blue", "2-clique", "tri", "sq"], ["a", "b", "c", "d"]]


def configs(tier):
    q = tier == "quick"
    cfgs = []
    for T, D, K in ([(1, 2, 3), (2, 2, 3), (3, 1, 3), (4, 1, 2)] if q else [(1, 3, 4), (2, 3, 3), (2, 2, 4), (3, 2, 3), (3, 1, 4), (4, 1, 3)]):
        for norm in (False, True):
            for ns in range(len(NAME_SETS)):
                if ns == 2 and q and T > 2:
                    continue
                cfgs.append({"name": f"jdd-T{T}-D{D}-K{K}-{'norm' if norm else 'raw'}-names{ns}", "kind": "jdd", "T": T, "D": D,
                             "K": K, "norm": norm, "names": ns})
    for T, K in ([(1, 3), (2, 2)] if q else [(1, 4), (2, 3), (3, 2)]):
        cfgs.append({"name": f"matrix-T{T}-K{K}", "kind": "matrix", "T": T, "K": K})
    for i in range(len(NETWORKS)):
        cfgs.append({"name": f"network{i}", "kind": "network", "net": i})
    return cfgs


# clean annotated networks: list of motifs (topology index, vertices); 0 = 2-clique, 1 = triangle
NETWORKS = [
    [(0, (0, 1)), (0, (1, 2)), (0, (2, 3))],
    [(1, (0, 1, 2)), (0, (2, 3))],
    [(1, (0, 1, 2)), (1, (2, 3, 4)), (0, (4, 5)), (0, (0, 5))],
    [(1, (0, 1, 2)), (1, (0, 3, 4)), (0, (1, 3))],
    [(0, (0, 1)), (0, (0, 2)), (0, (0, 3)), (1, (1, 2, 4))],
    [(1, (0, 1, 2)), (1, (3, 4, 5)), (0, (0, 3)), (0, (1, 4)), (0, (2, 5))],
]


def fork_keys(ctx, T, D, K):
    k = ctx.fork_int(ctx.int("nkeys", 1, K))
    keys = []
    for j in range(k):
        ent = [ctx.int(f"k{j}_{i}", 0, D) for i in range(T)]
        # distinct from earlier keys; canonical (increasing) order only for a 4th key
        for prev in keys:
            from symx.core import any_
            ctx.assume(any_(a != b for a, b in zip(ent, prev)))
        key = tuple(ctx.fork_int(e) for e in ent)
        if j >= 3:
            ctx.assume(key > keys[-1])
        keys.append(key)
    return keys


def path(ctx, cfg):
    kind = cfg["kind"]
    if kind == "jdd":
        return path_jdd(ctx, cfg)
    if kind == "matrix":
        return path_matrix(ctx, cfg)
    return path_network(ctx, cfg)


def path_jdd(ctx, cfg):
    from gcmpy.tools.average_joint_degree_from_jdd import AverageJointDegreeFromJDD
    from gcmpy.tools.joint_degree_from_excess import JointDegreeFromExcess
    from gcmpy.tools.joint_excess_from_jdd import JointExcessfromJDD

    T = cfg["T"]
    keys = fork_keys(ctx, T, cfg["D"], cfg["K"])
    P = {k: ctx.real(f"P{j}", 0, lo_strict=True) for j, k in enumerate(keys)}
    if cfg["norm"]:
        tot = 0
        for v in P.values():
            tot = tot + v
        ctx.assume(eq(tot, 1))
    names = NAME_SETS[cfg["names"]][:T]
    desc = f"keys={keys} names={names}"
    jdd = dict(P)
    jdd_given = jdd
    # mean joint degree
    avg = ctx.guard("mean-raised", AverageJointDegreeFromJDD.get_average_joint_degrees, jdd)
    ref_avg = [sum_(k[i] * P[k] for k in keys) for i in range(T)]
    ctx.require(all_(eq(a, b) for a, b in zip(avg, ref_avg)) if len(avg) == T else False, "mean-degree",
                f"{desc}: mean joint degree is not the P-weighted mean", twin=all_(eq(a, b + 1) for a, b in zip(avg, ref_avg)), logic="QF_NRA")
    # forward: excess distributions
    qks = ctx.guard("excess-raised", JointExcessfromJDD.get_joint_excess_distributions, jdd)
    ctx.require(list(jdd) == keys and all_(eq(jdd[k], P[k]) for k in keys), "excess-formula", f"{desc}: the distribution handed in was modified", sig="excess:input-mutated")
    ctx.require(len(qks) == T, "excess-formula", f"{desc}: {len(qks)} excess distributions for {T} topologies")
    for i in range(T):
        want = {}
        for k in keys:
            if k[i] > 0:
                ek = tuple(x - (1 if j == i else 0) for j, x in enumerate(k))
                want[ek] = (k[i] * P[k], ref_avg[i])  # numerator, denominator
        q = qks[i]
        ok_keys = set(q) == set(want)
        ctx.require(ok_keys, "excess-formula", f"{desc}: topology {i} excess keys {sorted(q)} expected {sorted(want)}")
        if ok_keys and want:
            ctx.require(all_(eq(q[ek] * want[ek][1], want[ek][0]) for ek in want), "excess-formula",
                        f"{desc}: q_{i} is not k_i P(k)/<k_i>", twin=all_(eq(q[ek] * want[ek][1], want[ek][0] + 1) for ek in want), logic="QF_NRA")
            ctx.require(eq(sum_(q.values()), 1), "excess-sums-to-one", f"{desc}: q_{i} does not sum to 1",
                        twin=eq(sum_(q.values()), 2), logic="QF_NRA")
    ctx.observe("q", [sorted(((list(k), v) for k, v in q.items()), key=lambda kv: kv[0]) for q in qks])
    # same support, different probabilities, same process: nothing may be remembered from the first evaluation
    R = {k: ctx.real(f"R{j}", 0, lo_strict=True) for j, k in enumerate(keys)}
    avg2 = ctx.guard("mean-raised", AverageJointDegreeFromJDD.get_average_joint_degrees, dict(R))
    ref2 = [sum_(k[i] * R[k] for k in keys) for i in range(T)]
    ctx.require(all_(eq(a, b) for a, b in zip(avg2, ref2)) if len(avg2) == T else False, "mean-degree",
                f"{desc}: second distribution on the same keys: mean joint degree is not its own P-weighted mean", logic="QF_NRA", sig="mean-degree:second-call")
    qks2 = ctx.guard("excess-raised", JointExcessfromJDD.get_joint_excess_distributions, dict(R))
    conds = []
    for i in range(T):
        for k in keys:
            if k[i] > 0:
                ek = tuple(x - (1 if j == i else 0) for j, x in enumerate(k))
                conds.append(eq(qks2[i][ek] * ref2[i], k[i] * R[k]) if i < len(qks2) and ek in qks2[i] else False)
    ctx.require(all_(conds), "excess-formula", f"{desc}: second distribution on the same keys: q_i is not k_i P(k)/<k_i>", logic="QF_NRA", sig="excess-formula:second-call")
    # inversion (precondition: some key positive in every topology)
    if not any(all(x > 0 for x in k) for k in keys):
        return
    qd = JointExcessfromJDD.convert_list_qks_to_dict(qks, names)
    if T > 1 and ctx.fork_bool(ctx.bool("dict_reversed")):
        qd = dict(reversed(list(qd.items())))  # the dictionary need not have been filled in the order of the names list
        desc += " (qks dictionary filled in reverse order)"
    q_before = {t: dict(q) for t, q in qd.items()}
    names_rt = ["".join(list(t)) for t in names]  # equal strings built at run time (identity differs from the dictionary keys)
    inv = ctx.guard("inversion-raised", JointDegreeFromExcess.get_joint_degree_distribution, qd, list(names_rt))
    untouched = set(qd) == set(q_before) and all(set(qd[t]) == set(q_before[t]) for t in qd)
    ctx.require(all_([untouched] + [eq(qd[t][k], q_before[t][k]) for t in qd for k in q_before[t] if untouched]), "inversion",
                f"{desc}: the excess distributions handed to the inversion were modified", logic="QF_NRA", sig="inversion:input-mutated")
    nonzero = [k for k in keys if any(x > 0 for x in k)]
    Z = sum_(P[k] for k in nonzero)
    ok_keys = set(inv) == set(nonzero)
    ctx.require(ok_keys, "inversion", f"{desc}: inverted keys {sorted(inv)} expected {sorted(nonzero)}")
    if ok_keys:
        ctx.require(all_(eq(inv[k] * Z, P[k]) for k in nonzero), "inversion", f"{desc}: inversion does not return P restricted to non-zero joint degrees",
                    twin=all_(eq(inv[k] * Z, P[k] * 2) for k in nonzero), logic="QF_NRA")
        ctx.observe("inv", sorted(((list(k), v) for k, v in inv.items()), key=lambda kv: kv[0]))


def sum_(xs):
    t = 0
    for x in xs:
        t = t + x
    return t


def path_matrix(ctx, cfg):
    from gcmpy.names.tools_names import ToolsNames
    from gcmpy.tools.joint_excess_from_ejk import JointExcessFromEjk
    from gcmpy.tools.joint_excess_joint_degree_matrices import JointExcessJointDegreeMatrices

    T, K = cfg["T"], cfg["K"]
    names = NAME_SETS[1][:T]
    ejks = {}
    for ti, t in enumerate(names):
        nk = ctx.fork_int(ctx.int(f"nk{ti}", 1, K))
        ks = [tuple((j + x) % 3 for x in range(T)) if T > 1 else (j,) for j in range(nk)]
        m = {}
        for a in ks:
            for b in ks:
                if ctx.fork_bool(ctx.bool(f"has{ti}_{a}_{b}")):
                    m[a + b] = ctx.real(f"e{ti}_{a}_{b}", 0, lo_strict=True)
        ejks[t] = m
    mats = ctx.guard("matrices-raised", JointExcessJointDegreeMatrices, {ToolsNames.EJKS: ejks, ToolsNames.EDGE_NAMES: names})
    qks = ctx.guard("row-sums-raised", JointExcessFromEjk.get_excess_joint_distributions, mats)
    for t in names:
        half = T
        want = {}
        for k, v in ejks[t].items():
            want[k[:half]] = want.get(k[:half], 0) + v
        q = qks.get(t, {})
        ok = set(q) == set(want)
        ctx.require(ok, "row-sums", f"matrix keys {sorted(ejks[t])}: row-sum keys {sorted(q)} expected {sorted(want)}")
        if ok and want:
            ctx.require(all_(eq(q[a], want[a]) for a in want), "row-sums", f"matrix keys {sorted(ejks[t])}: row sums wrong",
                        twin=all_(eq(q[a], want[a] * 2) for a in want))
    ctx.observe("rows", [sorted(((list(k), v) for k, v in qks[t].items()), key=lambda kv: kv[0]) for t in names])


def path_network(ctx, cfg):
    from gcmpy.names.network_names import NetworkNames
    from gcmpy.names.tools_names import ToolsNames
    from gcmpy.tools.joint_degree_distribution_from_network import JointDegreeDistributionFromNetwork
    from gcmpy.tools.joint_excess_from_ejk import JointExcessFromEjk
    from gcmpy.tools.joint_excess_from_jdd import JointExcessfromJDD
    from gcmpy.tools.joint_excess_joint_degree import JointExcessJointDegree

    motifs = NETWORKS[cfg["net"]]
    names = ["2-clique-blue", "3-clique"]
    nodes = sorted({v for _, vs in motifs for v in vs})
    G = nx.Graph()
    G.add_nodes_from(nodes)
    jd = {v: [0, 0] for v in nodes}
    for mid, (t, vs) in enumerate(motifs):
        for v in vs:
            jd[v][t] += 1
        for a, b in itertools.combinations(vs, 2):
            G.add_edge(a, b)
            G.edges[a, b][NetworkNames.TOPOLOGY] = names[t]
            G.edges[a, b][NetworkNames.MOTIF_IDS] = mid
    for v in nodes:
        G.nodes[v][NetworkNames.JOINT_DEGREE] = tuple(jd[v])
    used = [t for t in range(2) if any(tt == t for tt, _ in motifs)]
    jdd = ctx.guard("network-raised", JointDegreeDistributionFromNetwork.get_joint_degree_distribution, G)
    emp = {}
    for v in nodes:
        emp[tuple(jd[v])] = emp.get(tuple(jd[v]), 0) + 1
    ok = set(jdd) == set(emp) and all(close(jdd[k], emp[k] / len(nodes)) for k in emp)
    ctx.require(ok, "network-consistency", f"network {motifs}: empirical jdd {jdd}", twin=(not ok))
    q_from_jdd = ctx.guard("network-raised", JointExcessfromJDD.get_joint_excess_distributions, jdd)
    ex = JointExcessJointDegree({ToolsNames.NETWORK: G, ToolsNames.EDGE_NAMES: names})
    q_from_ejk = ctx.guard("network-raised", JointExcessFromEjk.get_excess_joint_distributions, ex.get_ejks())
    for t in used:
        a, b = q_from_jdd[t], q_from_ejk[names[t]]
        ok = set(a) == set(b) and all(close(a[k], b[k]) for k in a)
        ctx.require(ok, "network-consistency", f"network {motifs}: topology {names[t]} row sums {b} vs excess distribution of the jdd {a}",
                    twin=(not ok))
    ctx.observe("q", [sorted((list(k), round(v, 12)) for k, v in q_from_jdd[t].items()) for t in used])
