"""Shared machinery for C11/C12: clean motif networks with symbolic placements, lazy symbolic target
matrices, and structural comparison of the rewired graph with its input."""
import itertools

import networkx as nx

from symx.core import SymInt, all_, any_, ite, not_

SHAPES = {"edge": 2, "tri": 3, "c4": 4, "diamond2": 4}
TOPO = {"edge": "2-clique", "tri": "3-clique", "c4": "4-cycle", "diamond2": "dia-outer"}
NAMES = ["2-clique", "3-clique", "4-cycle", "dia-outer", "dia-inner"]


def shape_edges(shape, ms):
    if shape == "c4":
        return [(ms[0], ms[1]), (ms[1], ms[2]), (ms[2], ms[3]), (ms[3], ms[0])]
    if shape == "diamond2":  # a motif whose corners mix two edge topologies: outer 4-cycle + inner chord
        return [(ms[0], ms[1]), (ms[1], ms[2]), (ms[2], ms[3]), (ms[3], ms[0]), (ms[0], ms[2])]
    return list(itertools.combinations(ms, 2))


def shape_topos(shape, n_edges):
    if shape == "diamond2":
        return ["dia-outer"] * 4 + ["dia-inner"]
    return [TOPO[shape]] * n_edges


def fork_placement(ctx, cfg):
    """motif member ids are solver variables; preconditions: members of a motif distinct, motifs
    pairwise share at most one vertex (edge-disjoint), equal shapes ordered (symmetry breaking)"""
    V = cfg["V"]
    shapes = cfg["shapes"]
    mem = []
    for j, sh in enumerate(shapes):
        s = SHAPES[sh]
        ms = [ctx.int(f"m{j}_{i}", 0, V - 1) for i in range(s)]
        if sh == "c4":
            # cycle a-b-c-d: a is the smallest label, b < d fixes the orientation
            for i in range(1, 4):
                ctx.assume(ms[0] < ms[i])
            ctx.assume(ms[1] < ms[3])
            ctx.assume(ms[1] != ms[2])
            ctx.assume(ms[2] != ms[3])
        else:
            for i in range(s - 1):
                ctx.assume(ms[i] < ms[i + 1])
        mem.append(ms)
    for j in range(len(shapes)):
        for k in range(j + 1, len(shapes)):
            shared = 0
            for a in mem[j]:
                for b in mem[k]:
                    shared = shared + ite(a == b, 1, 0)
            if shapes[j] == "c4" or shapes[k] == "c4":
                # no common edge: compare edge sets explicitly
                for ea in shape_edges(shapes[j], mem[j]):
                    for eb in shape_edges(shapes[k], mem[k]):
                        ctx.assume(not_(any_([all_([ea[0] == eb[0], ea[1] == eb[1]]), all_([ea[0] == eb[1], ea[1] == eb[0]])])))
            else:
                ctx.assume(shared <= 1)
            if shapes[j] == shapes[k] and k == j + 1:
                ctx.assume(mem[j][0] <= mem[k][0])
    return [[ctx.fork_int(m) for m in ms] for ms in mem]


TEMPLATES = {
    # consistent networks rich enough for legitimate swaps (vertex degrees differ)
    "chain2": (7, [("edge", [0, 1]), ("edge", [1, 2]), ("edge", [2, 3]), ("edge", [3, 4]), ("edge", [2, 5]), ("edge", [5, 6])]),
    "tri4": (7, [("tri", [0, 1, 2]), ("tri", [2, 3, 4]), ("tri", [4, 5, 6]), ("tri", [1, 3, 5])]),
    "mixed": (7, [("tri", [0, 1, 2]), ("tri", [2, 3, 4]), ("edge", [0, 5]), ("edge", [4, 6]), ("edge", [5, 6]), ("edge", [1, 3])]),
    "star2": (6, [("edge", [0, 1]), ("edge", [0, 2]), ("edge", [0, 3]), ("edge", [3, 4]), ("edge", [4, 5])]),
    "tri3fan": (7, [("tri", [0, 1, 2]), ("tri", [0, 3, 4]), ("tri", [0, 5, 6]), ("edge", [1, 3]), ("edge", [2, 5])]),
    # u0=0 (1 triangle) with neighbours 3,4 (2 triangles each) against v0=1 (2 triangles) with neighbours 9,10 (1 each)
    "trideg": (12, [("tri", [0, 3, 4]), ("tri", [3, 5, 6]), ("tri", [4, 7, 8]), ("tri", [1, 9, 10]), ("tri", [1, 2, 11])]),
    # two diamonds whose corners mix two edge topologies (outer cycle / inner chord); annotations chosen so that the hub swap is evaluated
    "diamond2pair": (8, [("diamond2", [0, 1, 2, 3]), ("diamond2", [4, 5, 6, 7])]),
    # the same excess-degree 4-tuple (1,1,1,1) is a pairing of BOTH topologies (annotations below)
    "twotopo": (10, [("tri", [0, 1, 2]), ("edge", [3, 4]), ("edge", [5, 6]), ("tri", [7, 8, 9])]),
    "c4pair": (7, [("c4", [0, 1, 2, 3]), ("c4", [2, 4, 5, 6]), ("edge", [0, 4])]),
}


ANNOTATIONS = {"c4pair": [(1, 2), (0, 1), (0, 2), (0, 1), (2, 1), (0, 3), (0, 1)],
               "diamond2pair": [(2, 1), (2, 0), (2, 1), (2, 0), (3, 1), (3, 0), (4, 1), (3, 0)],
               "twotopo": [(1, 2), (1, 2), (1, 2), (2, 1), (2, 1), (3, 1), (4, 1), (1, 3), (1, 4), (1, 4)]}


def template_cfg(cfg):
    V, motifs = TEMPLATES[cfg["template"]]
    c = dict(cfg)
    c["V"] = V + cfg.get("extra_isolated", 0)  # vertices of joint degree zero: they must survive rewiring too
    if cfg["template"] in ANNOTATIONS:
        c["ann"] = ANNOTATIONS[cfg["template"]]
    c["shapes"] = [m[0] for m in motifs]
    return c, [list(m[1]) for m in motifs]


def fork_extras(ctx, cfg):
    """optional: every vertex may carry one more motif of the first topology than the window shows
    (the network is read as a window of a larger clean network); forked because annotations are dict keys"""
    if not cfg.get("extras"):
        return None
    xs = [ctx.int(f"extra{v}", 0, 1) for v in range(cfg["V"])]
    tot = 0
    for x in xs:
        tot = tot + x
    ctx.assume(tot <= cfg.get("max_extras", 2))
    return [ctx.fork_int(x) for x in xs]


def build_network(cfg, placement, extras=None):
    """gcmpy Network with the annotations the generators produce"""
    from gcmpy.names.network_names import NetworkNames as NN
    from gcmpy.network.network import Network

    shapes = cfg["shapes"]
    used = [t for t in NAMES if any(t in shape_topos(s, 1) + shape_topos(s, 5)[-1:] for s in shapes)]
    V = cfg["V"]
    net = Network()
    G = net.G
    off = cfg.get("label_offset", 0)  # labels above 256 are not shared small-int objects (identity vs equality)
    if off:
        placement = [[int(str(v + off)) for v in ms] for ms in placement]
    nodes = [int(str(v + off)) for v in range(V)]
    if cfg.get("node_order") == "desc":
        G.add_nodes_from(reversed(nodes))  # vertices need not have been inserted in ascending order
    else:
        G.add_nodes_from(nodes)
    jd = {v: [0] * len(used) for v in nodes}
    for j, (sh, ms) in enumerate(zip(shapes, placement)):
        es = shape_edges(sh, ms)
        ts = shape_topos(sh, len(es))
        if sh == "diamond2":
            for (a, b), t in zip(es, ts):
                jd[a][used.index(t)] += 1
                jd[b][used.index(t)] += 1
        else:
            for v in ms:
                jd[v][used.index(ts[0])] += 1
        for (a, b), t in zip(es, ts):
            G.add_edge(a, b)
            G.edges[a, b][NN.TOPOLOGY] = "".join(list(t))  # an equal string, not the object in the names list
            G.edges[a, b][NN.MOTIF_IDS] = j
    for i, v in enumerate(nodes):
        if extras:
            jd[v][0] += extras[i]
        if cfg.get("ann") and i < len(cfg["ann"]):
            jd[v] = list(cfg["ann"][i])
        G.nodes[v][NN.JOINT_DEGREE] = tuple(jd[v])
    return net, used


def snapshot(G):
    from gcmpy.names.network_names import NetworkNames as NN

    nodes = sorted((int(v), tuple(G.nodes[v].get(NN.JOINT_DEGREE, ()))) for v in G.nodes())
    edges = sorted((tuple(sorted((int(a), int(b)))), d.get(NN.TOPOLOGY), d.get(NN.MOTIF_IDS)) for a, b, d in G.edges(data=True))
    return nodes, edges


def canon_key(key, T):
    a, b = tuple(key[:T]), tuple(key[T:])
    return (a, b) if a <= b else (b, a)


class LazyTarget(dict):
    """target matrix of one topology whose entries are created on first lookup.
    mode 'full': every looked-up entry is a fresh positive real (one path = all full-support targets);
    mode 'lazy': first lookup forks on absent (KeyError) / present with weight >= 0; entries in `must` are positive.
    The matrix is symmetric: (a,b) and (b,a) share one symbol."""

    def __init__(self, ctx, topo, T, mode, must=()):
        super().__init__()
        self.ctx, self.topo, self.T, self.mode = ctx, topo, T, mode
        self.must = set(must)
        self.present, self.absent = {}, set()

    def _name(self, ck):
        return f"e[{self.topo}]" + "".join(map(str, ck[0])) + "|" + "".join(map(str, ck[1]))

    def lookup(self, key):
        ck = canon_key(key, self.T)
        if ck in self.present:
            return self.present[ck]
        if ck in self.absent:
            raise KeyError(key)
        nm = self._name(ck)
        if self.mode == "full" or ck in self.must:
            w = self.ctx.real(nm, 0, lo_strict=True)
        else:
            if not self.ctx.fork_bool(self.ctx.bool("has:" + nm)):
                self.absent.add(ck)
                raise KeyError(key)
            w = self.ctx.real(nm, 0)
        self.present[ck] = w
        return w

    def __getitem__(self, key):
        return self.lookup(key)

    def __contains__(self, key):
        try:
            self.lookup(key)
            return True
        except KeyError:
            return False

    def get(self, key, default=None):
        try:
            return self.lookup(key)
        except KeyError:
            return default


def excess_key(G, a, b, t_index):
    from gcmpy.names.network_names import NetworkNames as NN

    xa = list(G.nodes[a][NN.JOINT_DEGREE])
    xb = list(G.nodes[b][NN.JOINT_DEGREE])
    xa[t_index] -= 1
    xb[t_index] -= 1
    return tuple(xa) + tuple(xb)


def make_target(ctx, net, used, mode, reverse_dict=False):
    from gcmpy.names.network_names import NetworkNames as NN
    from gcmpy.tools.joint_excess_joint_degree_matrices import JointExcessJointDegreeMatrices

    T = len(used)
    must = {t: set() for t in used}
    for a, b, d in net.G.edges(data=True):
        t = d[NN.TOPOLOGY]
        must[t].add(canon_key(excess_key(net.G, a, b, used.index(t)), T))
    m = JointExcessJointDegreeMatrices()
    tabs = {t: LazyTarget(ctx, t, T, mode, must[t]) for t in (reversed(used) if reverse_dict else used)}
    m.ejks = tabs
    m.topology_names = list(used)
    return m, tabs


def broken_motifs(shapes, edges):
    """motifs whose edges (grouped by motif id) no longer form their shape on distinct vertices"""
    bad = []
    by_id = {}
    for (a, b), t, i in edges:
        by_id.setdefault(i, []).append(((a, b), t))
    for j, sh in enumerate(shapes):
        es = by_id.get(j, [])
        pairs = [e for e, _ in es]
        vs = sorted({v for e in pairs for v in e})
        if sh == "diamond2":
            outer = [e for e, t in es if t == "dia-outer"]
            inner = [e for e, t in es if t == "dia-inner"]
            ok = len(es) == 5 and len(outer) == 4 and len(inner) == 1 and len(vs) == 4 and all(a != b for a, b in pairs)
            if ok:
                H = nx.Graph(outer)
                ok = H.number_of_edges() == 4 and all(d == 2 for _, d in H.degree()) and nx.is_connected(H) and not H.has_edge(*inner[0])
            if not ok:
                bad.append((j, sh, es))
            continue
        ok = all(t == TOPO[sh] for _, t in es) and len(vs) == SHAPES[sh] and all(a != b for a, b in pairs)
        if ok:
            H = nx.Graph(pairs)
            if sh == "c4":
                ok = len(pairs) == 4 and all(d == 2 for _, d in H.degree()) and nx.is_connected(H)
            else:
                ok = len(pairs) == SHAPES[sh] * (SHAPES[sh] - 1) // 2 and sorted(pairs) == sorted(itertools.combinations(vs, 2))
        if not ok:
            bad.append((j, sh, pairs))
    extra = sorted(set(by_id) - set(range(len(shapes))), key=repr)
    return bad, extra


def check_structure(ctx, cfg, placement, before, G2, label_prefix=""):
    """obligations of C11 on the returned graph (all concrete per path)"""
    from gcmpy.names.network_names import NetworkNames as NN

    shapes = cfg["shapes"]
    nodes0, edges0 = before
    nodes2, edges2 = snapshot(G2)
    desc = f"placement={placement} before={[e[0] for e in edges0]} after={[(e[0], e[2]) for e in edges2]}"
    ctx.require(nodes2 == nodes0, "vertices-and-annotations", f"{desc}: vertices/annotations changed: {nodes2}", sig="vertices-and-annotations")
    loops = [e[0] for e in edges2 if e[0][0] == e[0][1]]
    ctx.require(not loops, "no-self-loop", f"{desc}: self-loops {loops}", sig="no-self-loop")
    ctx.require(len(edges2) == len(edges0), "edge-count", f"{desc}: {len(edges2)} edges, had {len(edges0)}", sig="edge-count")

    def degs(edges):
        d = {}
        for (a, b), t, _ in edges:
            for v in ((a, b) if a != b else (a,)):
                d[(v, t)] = d.get((v, t), 0) + 1
        return d

    ctx.require(degs(edges2) == degs(edges0), "per-topology-degrees", f"{desc}: per-vertex per-topology degrees changed", sig="per-topology-degrees")
    bad, extra = broken_motifs(shapes, edges2)
    sig = "motif-shapes"
    if bad or extra:
        # classify: is this exactly 'the new corner edges carry the motif ids of the opposite motifs'?
        old_pairs = {e[0] for e in edges0}
        new_edges = [e for e in edges2 if e[0] not in old_pairs]
        ids = sorted({e[2] for e in new_edges}, key=repr)
        kind = "other"
        if len(ids) == 2 and len(edges2) == len(edges0) and not loops:
            flip = {ids[0]: ids[1], ids[1]: ids[0]}
            flipped = [(e[0], e[1], flip[e[2]]) if e[0] not in old_pairs else e for e in edges2]
            if broken_motifs(shapes, flipped) == ([], []):
                kind = "new-corner-edges-carry-opposite-motif-id"
        sig = "motif-shapes:" + kind
    ctx.require(not bad and not extra, "motif-shapes", f"{desc}: motifs that lost their shape: {bad} unknown ids: {extra}", sig=sig)
    ctx.observe("after", [list(map(list, (e[0] for e in edges2))), [e[2] for e in edges2]])
    return not bad and not extra and not loops and len(edges2) == len(edges0)


def install_repeat_pruning(ctx):
    """The rejection loops of rewire() are memoryless: a failed attempt leaves the working graph, the edge
    set and the counters untouched, so everything after it repeats a state whose continuations are already
    being explored.  The hook below *checks* that (same draw site, same counters, same graph) at every
    DrawSet.draw() and ends the path as 'repeat-state' instead of exploring the copy again."""
    import linecache
    import sys

    from symx.core import PathAbort

    seen = set()
    frames = {"last": None, "n": 0}

    def fingerprint(fr):
        st = [fr.f_code.co_name, fr.f_lineno]
        for name, val in sorted(fr.f_locals.items()):
            if name == "self":
                continue
            try:
                if isinstance(val, nx.Graph):
                    st.append((name, repr(snapshot(val))))
                elif isinstance(val, (int, bool, str, float)) or val is None:
                    st.append((name, repr(val)))
                elif isinstance(val, tuple):
                    st.append((name, repr(tuple(int(x) for x in val))))
                elif hasattr(val, "__len__") and hasattr(val, "__iter__") and not isinstance(val, dict):
                    st.append((name, repr(sorted(map(repr, val)))))
            except Exception:  # noqa
                pass
        return tuple(st)

    def hidden(me):
        if me is None:
            return ()
        skip = {"_proposal_edges", "_acceptance_ratio", "_proposal_count", "_proposals_accepted", "_network", "_ejks", "_logger", "swap_condition"}
        try:
            return tuple((k, repr(v)[:2000]) for k, v in sorted(vars(me).items()) if k not in skip)
        except TypeError:  # __slots__
            return ()

    def hook(kind, seq):
        f = sys._getframe()
        between = []  # library frames between the draw and rewire() (helpers a refactored rewire() may draw from)
        while f is not None and f.f_code.co_name != "rewire":
            if "/gcmpy/" in f.f_code.co_filename and "draw_set" not in f.f_code.co_filename:
                between.append(f)
            f = f.f_back
        if f is None:
            return
        if f is not frames["last"]:  # a new invocation of rewire(): its states are compared among themselves only
            frames["last"] = f
            frames["n"] += 1
        loc = f.f_locals
        G = loc.get("G")
        if between or G is None or "convergence_count" not in loc:
            # the draw is not made by rewire() itself or the local names this hook knows are gone (refactored code): generic fallback -
            # the state is, for rewire() and every helper frame down to the draw, the source line and every local that is a graph, a
            # small scalar, a tuple of vertices or a sized iterable.  Stale locals of the previous attempt make the first repeat look
            # new, so one more level is explored than with the precise key.
            key = (frames["n"], "generic", fingerprint(f), tuple(fingerprint(b) for b in between), tuple(sorted(map(repr, seq))), hidden(loc.get("self")))
            if key in seen:
                raise PathAbort("repeat-state")
            seen.add(key)
            return
        line = linecache.getline(f.f_code.co_filename, f.f_lineno)
        site = "e1" if "e1" in line.split("=")[0] else "e0"
        try:
            snap = snapshot(G)
        except Exception:  # noqa
            return
        # hidden state: any attribute of the rewiring object other than the per-proposal scratch fields must be unchanged too
        me = loc.get("self")
        fp = ()
        if me is not None:
            skip = {"_proposal_edges", "_acceptance_ratio", "_proposal_count", "_proposals_accepted", "_network", "_ejks", "_logger", "swap_condition"}
            fp = tuple((k, repr(v)[:2000]) for k, v in sorted(vars(me).items()) if k not in skip)
        key = (frames["n"], site, loc.get("convergence_count"), loc.get("search_count") if site == "e1" else None,
               tuple(int(x) for x in loc["e0"]) if site == "e1" and "e0" in loc else None, repr(snap), tuple(sorted(map(repr, seq))), fp)
        if key in seen:
            raise PathAbort("repeat-state")
        seen.add(key)

    ctx.draw_hook = hook
