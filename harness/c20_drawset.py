"""C20 - the drawable edge set behaves as a set under any add/remove history.

(i)  bounded histories from the empty set: op kind and element of every step are solver variables
     (concretised by forking, so every history inside the bound is explored), the draw index stays
     symbolic; after every step the structure is compared with a plain-set model.
(ii) inductive step: an arbitrary state satisfying the representation invariant (duplicate-free
     member list + its index map, built directly in the private fields), one arbitrary operation,
     invariant and model agreement afterwards - covers histories of any length.
"""
from symx.core import all_, any_, eq

PROPERTY = "C20"
FUNCTIONS = ["gcmpy.tools.draw_set.DrawSet.add", "DrawSet.remove", "DrawSet.draw", "DrawSet.__len__",
             "DrawSet.__iter__", "DrawSet.__contains__"]
STUBS = ["random.choice / randrange -> fresh bounded index (uniform primitive, its use is checked)"]
BOUNDS = {
    "quick": "histories of <= 4 operations over a 3-element universe (2-tuples) and a 2-element universe of ints; "
             "inductive step from every invariant state of <= 3 members over a 4-element universe",
    "thorough": "histories of <= 6 operations over a 3-element universe and <= 5 over a 4-element universe; "
                "inductive step from every invariant state of <= 4 members over a 5-element universe",
}
OUTSIDE = "longer histories are covered only through the inductive step (ii), which relies on the private fields " \
          "_edges/_edge_hashmap named in the property's anchors; elements whose __eq__/__hash__ disagree"
ASSUMPTIONS = ["random.choice is uniform over the sequence it is handed (CPython)",
               "elements are hashable with consistent __eq__/__hash__ (ints and tuples of ints are used)"]
EXPECTED_LABELS = ["len", "iteration", "membership", "draw-member", "draw-every-member", "remove-absent-raises"]

UNIV = {
    "t3": [(0, 1), (1, 2), (0, 2)],
    "i2": [5, 7],
    "t4": [(0, 1), (1, 2), (0, 2), (2, 3)],
    "t5": [(0, 1), (1, 2), (0, 2), (2, 3), (3, 4)],
}


def configs(tier):
    if tier == "quick":
        return [
            {"name": "history-L4-t3", "kind": "history", "L": 4, "U": "t3"},
            {"name": "history-L4-i2", "kind": "history", "L": 4, "U": "i2"},
            {"name": "step-s3-t4", "kind": "step", "S": 3, "U": "t4"},
        ]
    return [
        {"name": "history-L6-t3", "kind": "history", "L": 6, "U": "t3"},
        {"name": "history-L5-t4", "kind": "history", "L": 5, "U": "t4"},
        {"name": "history-L6-i2", "kind": "history", "L": 6, "U": "i2"},
        {"name": "step-s4-t5", "kind": "step", "S": 4, "U": "t5"},
    ]


def snapshot(ds, U):
    return (len(ds), sorted(list(iter(ds)), key=repr), [u in ds for u in U])


def agree(ctx, ds, model, U, when):
    items = list(iter(ds))
    ctx.require(len(ds) == len(model), "len", lambda: f"{when}: len {len(ds)} vs model {len(model)}",
                twin=(len(ds) == len(model) + 1))
    ctx.require(sorted(items, key=repr) == sorted(model, key=repr), "iteration",
                lambda: f"{when}: iterates {items} vs model {sorted(model)}",
                twin=(sorted(items, key=repr) == sorted(model, key=repr) + [None]))
    mem = [(u in ds) for u in U]
    ctx.require(mem == [(u in model) for u in U], "membership", lambda: f"{when}: membership {mem} vs model {sorted(model)}",
                twin=(mem == [not (u in model) for u in U]))
    ctx.observe("state", [len(ds), sorted(items, key=repr), mem])


def do_draw(ctx, ds, model, when):
    if not model:
        return
    members = sorted(model, key=repr)
    r = ds.draw()
    ctx.require(any_(eq_el(r, x) for x in members), "draw-member", lambda: f"{when}: draw can return a non-member; members {members}",
                twin=any_(eq_el(r, x) for x in members[1:]) if len(members) > 1 else None)
    for x in members:
        ctx.exists(lambda x=x: eq_el(ds.draw(), x), "draw-every-member", lambda x=x: f"{when}: member {x} can never be drawn")
    ctx.observe("draw", r)


def eq_el(a, b):
    if isinstance(a, tuple) and isinstance(b, tuple):
        if len(a) != len(b):
            return False
        return all_(eq(x, y) for x, y in zip(a, b))
    if isinstance(a, tuple) or isinstance(b, tuple):
        return False
    return eq(a, b)


def apply_op(ctx, ds, model, U, op, el, when):
    if op == 0:  # add
        before = snapshot(ds, U)
        present = el in model
        ds.add(el)
        model.add(el)
        if present:
            ctx.require(snapshot(ds, U) == before, "re-add-noop", lambda: f"{when}: re-adding {el} changed the set")
    elif op == 1:  # remove
        if el in model:
            ds.remove(el)
            model.discard(el)
        else:
            before = snapshot(ds, U)
            raised = False
            try:
                ds.remove(el)
            except Exception:  # noqa
                raised = True
            ctx.require(raised, "remove-absent-raises", lambda: f"{when}: removing absent {el} did not raise", twin=(not raised))
            ctx.require(snapshot(ds, U) == before, "remove-absent-intact",
                        lambda: f"{when}: failed removal of {el} corrupted the set: {snapshot(ds, U)} vs {before}")
    else:
        do_draw(ctx, ds, model, when)


def path(ctx, cfg):
    from gcmpy.tools.draw_set import DrawSet

    U = UNIV[cfg["U"]]
    m = len(U)
    if cfg["kind"] == "history":
        ds = DrawSet()
        model = set()
        agree(ctx, ds, model, U, "initially")
        hist = []
        for step in range(cfg["L"]):
            op = ctx.fork_int(ctx.int(f"op{step}", 0, 2))
            el = None
            if op != 2:
                el = U[ctx.fork_int(ctx.int(f"el{step}", 0, m - 1))]
            hist.append((["add", "remove", "draw"][op], el))
            when = f"after {hist}"
            ctx.guard("operation-raised", apply_op, ctx, ds, model, U, op, el, when)
            ctx.guard("operation-raised", agree, ctx, ds, model, U, when)

        def finale():
            # every member drawable, drain to empty and re-insert
            do_draw(ctx, ds, model, f"after {hist}")
            for x in sorted(model, key=repr):
                ds.remove(x)
            model.clear()
            agree(ctx, ds, model, U, f"after {hist} then removing everything")
            ds.add(U[0])
            model.add(U[0])
            agree(ctx, ds, model, U, f"after {hist}, drain, re-insert")

        ctx.guard("operation-raised", finale)
        return

    # ---- inductive step -----------------------------------------------------------------------
    ds = DrawSet()
    if not (hasattr(ds, "_edges") and hasattr(ds, "_edge_hashmap")):
        ctx.note("inductive step skipped: private fields _edges/_edge_hashmap not present")
        ctx.require(True, "len")
        return
    size = ctx.fork_int(ctx.int("size", 0, cfg["S"]))
    idxs = [ctx.int(f"m{j}", 0, m - 1) for j in range(size)]
    # representation invariant: member list duplicate-free (any order), index map consistent
    for a in range(size):
        for b in range(a + 1, size):
            ctx.assume(idxs[a] != idxs[b])
    members = [U[ctx.fork_int(i)] for i in idxs]
    ds._edges = list(members)
    ds._edge_hashmap = {e: i for i, e in enumerate(members)}
    model = set(members)
    op = ctx.fork_int(ctx.int("op", 0, 2))
    el = None
    if op != 2:
        el = U[ctx.fork_int(ctx.int("el", 0, m - 1))]
    when = f"state {members} then {['add', 'remove', 'draw'][op]} {el}"
    ctx.guard("operation-raised", apply_op, ctx, ds, model, U, op, el, when)
    ctx.guard("operation-raised", agree, ctx, ds, model, U, when)
    inv = (len(set(ds._edges)) == len(ds._edges)) and ds._edge_hashmap == {e: i for i, e in enumerate(ds._edges)}
    ctx.require(inv, "invariant-reestablished", lambda: f"{when}: _edges={ds._edges} _edge_hashmap={ds._edge_hashmap}")


def post_hook(tier):
    """thorough tier: the same history property as a CrossHair contract (independent engine).
    A CrossHair counterexample is replayed on the real code before it is believed; 'not confirmed' is inconclusive."""
    import ast
    import os
    import re
    import subprocess
    import sys
    import time

    if tier != "thorough":
        return {}
    here = os.path.dirname(os.path.abspath(__file__))
    f = os.path.join(here, "c20_crosshair_contract.py")
    env = dict(os.environ)
    env["PYTHONPATH"] = os.environ.get("GCMPY_REPO", "/repo") + os.pathsep + os.path.dirname(here)
    t = time.time()
    try:
        p = subprocess.run([sys.executable, "-m", "crosshair", "check", "--per_condition_timeout", "90", "--report_all", f],
                           capture_output=True, text=True, env=env, timeout=400)
        out = p.stdout + p.stderr
    except Exception as e:  # noqa
        return {"evidence": {"crosshair": f"not run: {e}"}}
    ev = {"crosshair": {"seconds": round(time.time() - t, 1), "output": out.strip()[-400:]}}
    m = re.search(r"false when calling history_agrees\((.*)\)", out)
    if m:
        try:
            ops = ast.literal_eval(m.group(1).split("ops = ")[-1] if "ops =" in m.group(1) else m.group(1))
            sys.path.insert(0, here)
            import c20_crosshair_contract as cc

            if cc.history_agrees(list(ops)) is False:
                return {"evidence": ev, "violations": [{"label": "crosshair-history", "sig": "crosshair-history", "detail": f"history {ops} (0=add,1=remove; element index)",
                                                        "config": {"name": "crosshair", "kind": "crosshair"}, "config_name": "crosshair", "values": {"ops": list(map(list, ops))},
                                                        "reproduced": True}]}
            ev["crosshair"]["note"] = "counterexample did not reproduce: ignored"
        except Exception as e:  # noqa
            ev["crosshair"]["note"] = f"could not parse counterexample: {e}"
    elif "Confirmed over all paths" in out:
        ev["crosshair"]["verdict"] = "confirmed over all paths within CrossHair's own bounds"
    else:
        ev["crosshair"]["verdict"] = "not confirmed (inconclusive for this sub-check only)"
    return {"evidence": ev}
