"""C16 - closed-form clique / chordless-cycle equations and the connected-graph counts they rely on."""
import itertools
from math import comb

import networkx as nx

from oracles.percolation import clique_expectation, expectation
from symx.core import eq

PROPERTY = "C16"
FUNCTIONS = ["gcmpy.message_passing.equations.clique_equation.clique_equation",
             "gcmpy.message_passing.equations.chordless_cycle_equation.chordless_cycle_equation",
             "gcmpy.message_passing.number_connected_graphs.Q", "number_connected_graphs.QQ",
             "number_connected_graphs.number_of_connected_graphs", "number_connected_graphs.binomial"]
STUBS = []
BOUNDS = {
    "quick": "clique_equation tau=2..6 with tau-1 distinct symbolic H and symbolic phi; chordless cycles n=3..8; "
             "Q(n,.) for n<=12 and QQ(n,.) for n<=5 through the component-decomposition identity in a real variable x "
             "(all k at once) plus out-of-range k; number_of_connected_graphs on every graph with <=4 vertices x every "
             "vertex subset x focal vertex and on four 6-8 vertex substrates with bridges (whole vertex set / one vertex left out), all k at once as a "
             "polynomial identity in phi",
    "thorough": "tau<=9, cycles n<=14, Q for n<=14, QQ for n<=6, number_of_connected_graphs on every graph with <=5 vertices",
}
OUTSIDE = "tau>9, n>14; floating-point rounding; Q/QQ with non-integer arguments"
ASSUMPTIONS = [
    "floats are modelled as exact rationals",
    "lemma (Harary-Palmer): the decomposition by the component of a fixed vertex, "
    "(1+x)^C(n,2) = sum_m C(n-1,m-1) C_m(x) (1+x)^C(n-m,2), determines the connected-graph polynomials C_n uniquely",
    "clique oracle: subset expansion with the connectivity recursion conn_n = 1 - sum_k C(n-1,k-1) conn_k q^{k(n-k)} "
    "(does not use Q); cycle oracle: brute force over 2^n occupation patterns; counter oracle: deletion-contraction",
]
EXPECTED_LABELS = ["clique-identity", "cycle-identity", "Q-decomposition", "Q-out-of-range", "QQ-decomposition", "counter-identity"]
VALIDATE_EVERY = 5


def _small_graphs(nmax):
    from networkx.generators.atlas import graph_atlas_g

    return [g for g in graph_atlas_g() if 1 <= g.number_of_nodes() <= nmax]


def configs(tier):
    q = tier == "quick"
    cfgs = []
    for tau in range(2, 7 if q else 10):
        cfgs.append({"name": f"clique-tau{tau}", "kind": "clique", "tau": tau})
    for n in range(3, 9 if q else 15):
        cfgs.append({"name": f"cycle-n{n}", "kind": "cycle", "n": n})
    for n in range(1, 13 if q else 15):
        cfgs.append({"name": f"Q-n{n}", "kind": "Q", "n": n, "fn": "Q"})
    for n in range(1, 6 if q else 7):
        cfgs.append({"name": f"QQ-n{n}", "kind": "Q", "n": n, "fn": "QQ"})
    for gi, g in enumerate(_small_graphs(4 if q else 5)):
        nodes = sorted(g.nodes())
        lab = {v: [4, 9, 2, 7, 0][j] for j, v in enumerate(nodes)}
        cfgs.append({"name": f"counter-g{gi}-n{len(nodes)}m{g.number_of_edges()}", "kind": "counter",
                     "nodes": [lab[v] for v in nodes], "edges": [(lab[a], lab[b]) for a, b in g.edges()]})
    big = {"two-triangles-bridge": [(0, 1), (1, 2), (0, 2), (3, 4), (4, 5), (3, 5), (2, 3)],
           "two-K4-bridge": [(0, 1), (0, 2), (0, 3), (1, 2), (1, 3), (2, 3), (4, 5), (4, 6), (4, 7), (5, 6), (5, 7), (6, 7), (3, 4)],
           "K4-path-triangle": [(0, 1), (0, 2), (0, 3), (1, 2), (1, 3), (2, 3), (3, 4), (4, 5), (5, 6), (6, 4)],
           "bowtie-plus": [(0, 1), (1, 2), (0, 2), (2, 3), (3, 4), (2, 4), (4, 5), (5, 0)]}
    for nm, edges in big.items():
        nodes = sorted({v for e in edges for v in e})
        cfgs.append({"name": f"counter-{nm}", "kind": "counter", "nodes": nodes, "edges": edges, "whole": True})
    return cfgs


def rel_poly(nodes, edges, phi):
    """all-terminal reliability by deletion-contraction on a multigraph (independent of subset enumeration)"""
    nodes = list(nodes)
    edges = [e for e in edges if e[0] != e[1]]
    if len(nodes) == 1:
        return 1
    if not edges:
        return 0
    (a, b), rest = edges[0], edges[1:]
    # contract b into a
    cn = [v for v in nodes if v != b]
    ce = [((a if x == b else x), (a if y == b else y)) for x, y in rest]
    return phi * rel_poly(cn, ce, phi) + (1 - phi) * rel_poly(nodes, rest, phi)


def path(ctx, cfg):
    kind = cfg["kind"]
    if kind == "clique":
        from gcmpy.message_passing.equations.clique_equation import clique_equation

        tau = cfg["tau"]
        phi = ctx.real("phi")
        Hs = [ctx.real(f"H{j}") for j in range(tau - 1)]
        val = ctx.guard("clique-raised", clique_equation, tau, phi, Hs)
        ref = clique_expectation(tau, phi, Hs)
        ctx.require(eq(val, ref), "clique-identity", f"clique_equation(tau={tau}) differs from the exact expectation on K_{tau}",
                    twin=eq(val, ref + phi * Hs[0]), logic="QF_NRA")
        ctx.observe("clique", val)
        # also against the brute-force oracle for small tau (two independent oracles)
        if tau <= 5:
            edges = list(itertools.combinations(range(tau), 2))
            u = {j + 1: Hs[j] for j in range(tau - 1)}
            ref2 = expectation(edges, 0, phi, u)
            ctx.require(eq(val, ref2), "clique-identity", f"clique_equation(tau={tau}) differs from brute force", logic="QF_NRA")
        return
    if kind == "cycle":
        from gcmpy.message_passing.equations.chordless_cycle_equation import chordless_cycle_equation

        n = cfg["n"]
        phi = ctx.real("phi")
        u = ctx.real("u")
        val = ctx.guard("cycle-raised", chordless_cycle_equation, n, u, phi)
        edges = [(i, (i + 1) % n) for i in range(n)]
        ref = expectation(edges, 0, phi, {v: u for v in range(n)})
        ctx.require(eq(val, ref), "cycle-identity", f"chordless_cycle_equation(n={n}) differs from the exact expectation on C_{n}",
                    twin=eq(val, ref + phi * u), logic="QF_NRA")
        ctx.observe("cycle", val)
        return
    if kind == "Q":
        import gcmpy.message_passing.number_connected_graphs as ncg

        f = getattr(ncg, cfg["fn"])
        n = cfg["n"]
        x = ctx.real("x")

        def C(m):
            s = m * (m - 1) // 2
            poly = 0
            for k in range(0, s + 1):
                c = ctx.guard("Q-raised", f, m, k)
                poly = poly + c * x ** k
            return poly

        lhs = (1 + x) ** (n * (n - 1) // 2)
        rhs = 0
        for m in range(1, n + 1):
            rhs = rhs + comb(n - 1, m - 1) * C(m) * (1 + x) ** ((n - m) * (n - m - 1) // 2)
        lab = "Q-decomposition" if cfg["fn"] == "Q" else "QQ-decomposition"
        ctx.require(eq(lhs, rhs), lab, f"{cfg['fn']}(m,.) for m<={n} violates the component decomposition of all graphs on {n} vertices",
                    twin=eq(lhs + x, rhs), logic="QF_NRA")
        if cfg["fn"] == "Q":
            s = n * (n - 1) // 2
            for k in (-1, s + 1, s + 3):
                v = ctx.guard("Q-raised", f, n, k)
                ctx.require(v == 0, "Q-out-of-range", f"Q({n},{k}) = {v}, expected 0", twin=(v == 1))
        ctx.observe("counts", [f(n, k) for k in range(0, n * (n - 1) // 2 + 1)])
        return
    if kind == "counter":
        from gcmpy.message_passing.number_connected_graphs import number_of_connected_graphs

        nodes, edges = cfg["nodes"], cfg["edges"]
        G = nx.Graph()
        G.add_nodes_from(nodes)
        G.add_edges_from(edges)
        # the vertex subset (containing the focal vertex) and the focal vertex are forked
        i = nodes[ctx.fork_int(ctx.int("focal", 0, len(nodes) - 1))]
        others = [v for v in nodes if v != i]
        if cfg.get("whole"):  # larger substrates: the whole vertex set or everything but one vertex
            drop = ctx.fork_int(ctx.int("drop", -1, len(others) - 1))
            ak = [v for j, v in enumerate(others) if j != drop]
        else:
            ak = [v for j, v in enumerate(others) if ctx.fork_bool(ctx.bool(f"in{j}"))]
        sub = [i] + ak
        sub_edges = [(a, b) for a, b in edges if a in sub and b in sub]
        m = len(sub_edges)
        phi = ctx.real("phi")
        before = (sorted(G.nodes()), sorted(map(sorted, G.edges())))
        poly = 0
        counts = []
        ak_obj = list(ak)  # one list object reused for every call, as a caller would
        for k in range(0, m + 2):
            c = ctx.guard("counter-raised", number_of_connected_graphs, G, ak_obj, i, k)
            counts.append(c)
            if k <= m:
                poly = poly + c * phi ** (m - k) * (1 - phi) ** k
        ref = rel_poly(sub, sub_edges, phi)
        ctx.require(eq(poly, ref), "counter-identity",
                    f"number_of_connected_graphs on nodes={nodes} edges={edges} subset={sub}: counts {counts} disagree with "
                    f"the reliability polynomial", twin=eq(poly + phi, ref), logic="QF_NRA")
        ctx.require(counts[m + 1] == 0, "counter-identity", f"removing {m + 1} of {m} edges gave {counts[m + 1]} graphs")
        ctx.require((sorted(G.nodes()), sorted(map(sorted, G.edges()))) == before and ak_obj == list(ak), "counter-input-untouched",
                    f"substrate graph or the caller's vertex list was modified: ak={ak_obj} (given {list(ak)})")
        ctx.observe("counts", counts)
        return
    raise ValueError(kind)
