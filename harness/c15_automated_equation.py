"""C15 - AutomatedEquation.automated_equation equals the exact bond-percolation expectation as a
polynomial identity in phi and per-vertex u, for every motif / focal vertex inside the bound, and
independently of what the (cached) evaluator computed before."""
import networkx as nx

from oracles.percolation import expectation
from symx.core import eq

PROPERTY = "C15"
FUNCTIONS = ["gcmpy.message_passing.equations.automated_equation.AutomatedEquation.automated_equation",
             "AutomatedEquation.get_connected_subgraphs", "AutomatedEquation._get_connected_subgraphs",
             "AutomatedEquation.get_edge_combinations", "AutomatedEquation.get_us"]
STUBS = []
BOUNDS = {
    "quick": "every connected graph on 2..5 vertices (networkx atlas, 30 graphs, vertices relabelled non-contiguously) x "
             "every focal vertex; every connected 6-vertex graph with <= 9 edges at two focal vertices; cycles C6..C8, K6 at one focal vertex; phi and all u_v unconstrained reals (identity of "
             "polynomials); call histories of length 2 over a pool of 3 named motifs with fresh symbols per call",
    "thorough": "every connected graph on 2..6 vertices (142 graphs) x every focal vertex; every connected 7-vertex graph with <= 9 edges at one focal vertex; cycles to C10; histories of "
                "length 3 over a pool of 4 named motifs",
}
OUTSIDE = "motifs with 7+ vertices other than cycles (the library's own 2^|E| enumeration is the cost); unnamed motifs " \
          "sharing the empty name (the property is about distinctly named motifs); floating-point rounding"
ASSUMPTIONS = ["floats are modelled as exact rationals (polynomial identity); rounding is outside the claim",
               "oracle: brute-force sum over all 2^|E| occupation patterns (oracles/percolation.py)"]
EXPECTED_LABELS = ["identity"]
VALIDATE_EVERY = 10


def _atlas(nmax):
    from networkx.generators.atlas import graph_atlas_g

    out = []
    for g in graph_atlas_g():
        n = g.number_of_nodes()
        if 2 <= n <= nmax and nx.is_connected(g):
            out.append(g)
    return out


def _relabel(n):
    # non-contiguous, unordered labels: catches code that assumes vertices 0..n-1
    labels = [7, 3, 11, 0, 20, 5, 13, 2, 9, 30, 1, 4]
    return {i: labels[i] for i in range(n)}


POOL = [
    ("tri", [(1, 2), (2, 3), (1, 3)]),
    ("diamond", [(0, 1), (1, 2), (2, 3), (3, 0), (0, 2)]),
    ("c5", [(4, 5), (5, 6), (6, 7), (7, 8), (8, 4)]),
    ("k4", [(0, 1), (0, 2), (0, 3), (1, 2), (1, 3), (2, 3)]),
]


def configs(tier):
    cfgs = []
    nmax = 5 if tier == "quick" else 6
    for gi, g in enumerate(_atlas(nmax)):
        lab = _relabel(g.number_of_nodes())
        edges = [(lab[a], lab[b]) for a, b in g.edges()]
        for root in sorted(lab.values()):
            cfgs.append({"name": f"atlas{gi}-n{g.number_of_nodes()}m{g.number_of_edges()}-root{root}", "kind": "single",
                         "edges": edges, "root": root, "gname": f"g{gi}"})
    if tier == "quick":
        for gi, g in enumerate(_atlas(6)):
            if g.number_of_nodes() == 6 and g.number_of_edges() <= 9:
                lab = _relabel(6)
                edges = [(lab[a], lab[b]) for a, b in g.edges()]
                roots = sorted(lab.values())
                for root in (roots[gi % 6], roots[(gi + 3) % 6]):
                    cfgs.append({"name": f"atlas{gi}-n6m{g.number_of_edges()}-root{root}", "kind": "single", "edges": edges, "root": root, "gname": f"g{gi}"})
    if tier == "thorough":
        # sparse 7-vertex motifs (the library enumerates 2^|E| edge subsets per component, so dense ones are out of reach)
        for gi, g in enumerate(_atlas(7)):
            if g.number_of_nodes() == 7 and g.number_of_edges() <= 9:
                lab = _relabel(7)
                edges = [(lab[a], lab[b]) for a, b in g.edges()]
                roots = sorted(lab.values())
                cfgs.append({"name": f"atlas{gi}-n7m{g.number_of_edges()}-root{roots[gi % 7]}", "kind": "single", "edges": edges, "root": roots[gi % 7], "gname": f"g{gi}"})
    for n in range(6, 9 if tier == "quick" else 11):
        edges = [(i, (i + 1) % n) for i in range(n)]
        cfgs.append({"name": f"cycle{n}-root0", "kind": "single", "edges": edges, "root": 0, "gname": f"c{n}"})
        cfgs.append({"name": f"cycle{n}-root{n // 2}", "kind": "single", "edges": edges, "root": n // 2, "gname": f"c{n}"})
    if tier == "quick":
        k6 = [(i, j) for i in range(6) for j in range(i + 1, 6)]
        cfgs.append({"name": "k6-root3", "kind": "single", "edges": k6, "root": 3, "gname": "k6"})
    # histories on one evaluator
    L, P = (2, 3) if tier == "quick" else (3, 4)
    cfgs.append({"name": f"history-L{L}-pool{P}", "kind": "history", "L": L, "P": P})
    for mi in range(3):
        cfgs.append({"name": f"retry-after-failed-call-{POOL[mi][0]}", "kind": "retry", "motif": mi})
    return cfgs


def eval_once(ctx, AE, gname, edges, root, tag):
    nodes = sorted({v for e in edges for v in e})
    phi = ctx.real(f"phi{tag}")
    u = {v: ctx.real(f"u{tag}_{v}") for v in nodes}
    G = nx.Graph(name=gname)
    G.add_edges_from(edges)
    for v in nodes:
        G.nodes[v]["u"] = u[v]  # the focal vertex gets a value too: the result must not depend on it
    val = ctx.guard("equation-raised", AE.automated_equation, G, phi, root)
    ref = expectation(edges, root, phi, u)
    other = [v for v in nodes if v != root][0]
    ctx.require(eq(val, ref), "identity",
                lambda: f"{gname} edges={edges} root={root}: automated_equation differs from the exact expectation",
                twin=eq(val, ref + phi * u[other]), logic="QF_NRA", sig=f"identity")
    ctx.observe("value", val)
    return val


def path(ctx, cfg):
    from gcmpy.message_passing.equations.automated_equation import AutomatedEquation

    AE = AutomatedEquation()
    if cfg["kind"] == "single":
        eval_once(ctx, AE, cfg["gname"], cfg["edges"], cfg["root"], "")
        return
    if cfg["kind"] == "retry":
        # first call on a motif raises because one vertex carries no 'u' yet; the caller repairs the input and calls again
        nm, es = POOL[cfg["motif"]]
        nodes = sorted({v for e in es for v in e})
        root = nodes[ctx.fork_int(ctx.int("root", 0, len(nodes) - 1))]
        missing = [v for v in nodes if v != root][ctx.fork_int(ctx.int("missing", 0, len(nodes) - 2))]
        G = nx.Graph(name=nm)
        G.add_edges_from(es)
        phi0 = ctx.real("phi_first")
        for v in nodes:
            if v != missing:
                G.nodes[v]["u"] = ctx.real(f"ufirst_{v}")
        try:
            AE.automated_equation(G, phi0, root)
        except Exception:  # noqa  (expected: KeyError 'u')
            pass
        eval_once(ctx, AE, nm, es, root, "_retry")
        return
    pool = POOL[: cfg["P"]]
    choices = [(i, r) for i, (nm, es) in enumerate(pool) for r in sorted({v for e in es for v in e})]
    for step in range(cfg["L"]):
        k = ctx.fork_int(ctx.int(f"pick{step}", 0, len(choices) - 1))
        i, root = choices[k]
        nm, es = pool[i]
        eval_once(ctx, AE, nm, es, root, f"_{step}")
