"""C12 - MCMC rewiring only creates pairings the target allows, and accepts by the Metropolis rule.

Same exploration as C11, but the target is a lazy dictionary: the first lookup of a pairing forks on
'absent' (KeyError) vs 'present with symbolic weight >= 0' (zero allowed); pairings of existing edges
are positive (the property's proviso)."""
from harness import mcmc_common as mc
from symx.core import all_

PROPERTY = "C12"
FUNCTIONS = ["gcmpy.tools.markov_chain_monte_carlo_rewiring.MarkovChainMonteCarloRewiring.rewire", "swap_condition", "is_edge_choice_suitable",
             "get_joint_excess_degree_key", "get_swapped_joint_excess_degree_key",
             "gcmpy.tools.joint_excess_joint_degree_keys_view.JointExcessJointDegreeKeysView",
             "gcmpy.tools.joint_excess_joint_degree_matrices.JointExcessJointDegreeMatrices (setters, get_topology_index)"]
STUBS = ["random.choice -> forked edge index", "random.random -> fresh real in [0,1)",
         "target: lazy symmetric dictionary, first lookup forks absent / present(w>=0); pairings of existing edges are positive"]
BOUNDS = {
    "quick": "every placement of [edge,edge] on <=4 vertices with <=2 annotation extras and the templates chain2, star2, trideg, diamond2pair, twotopo (one pairing shared by two topologies); one accepted swap; <=6 draws",
    "thorough": "additionally [edge,edge,edge] on 4, [tri,edge] on 4, templates mixed, tri3fan; search_limit 2",
}
OUTSIDE = "the literal claim 'the distance to the target is smaller after rewiring' is statistical (false for individual RNG outcomes even for a " \
          "correct sampler) and is NOT decided; what is decided instead is the Metropolis rule whose stationary measure is the target: every " \
          "evaluated proposal is accepted iff r < prod_new e_t / prod_old e_t. Proposals rejected silently because the swapped keys equal the " \
          "starting keys never reach the test and are not constrained. Continuations after failed attempts are pruned as in C11."
ASSUMPTIONS = ["target matrices are symmetric (one symbol per unordered pairing)", "pairings of edges that already exist have positive weight (proviso of the property)",
               "the mechanism obligation wraps the instance method swap_condition named in the property's anchors to observe its arguments and result"]
EXPECTED_LABELS = ["created-pairing-allowed", "metropolis-rule"]
DRAW_BUDGET = {"quick": 6, "thorough": 8}
VALIDATE_EVERY = 40
TIME_LIMIT = {"quick": 900, "thorough": 7200}


def configs(tier):
    q = tier == "quick"
    cfgs = []

    def add(shapes, V, search=1, max_extras=2):
        cfgs.append({"name": f"{'+'.join(shapes)}-V{V}-search{search}-extras{max_extras}", "shapes": shapes, "V": V, "conv": 0, "search": search,
                     "kind": "step", "extras": True, "max_extras": max_extras})

    def tpl(name, search=1, node_order=None):
        cfgs.append({"name": f"template-{name}-search{search}" + (f"-nodes-{node_order}" if node_order else ""), "template": name, "conv": 0,
                     "search": search, "kind": "template", "node_order": node_order})

    add(["edge", "edge"], 4)
    for t in ("chain2", "star2", "trideg", "diamond2pair", "twotopo"):
        tpl(t)
    tpl("chain2", node_order="desc")  # vertices inserted in descending order (ids are not positions)
    tpl("star2", node_order="desc")
    if not q:
        add(["edge", "edge", "edge"], 4)
        add(["tri", "edge"], 4)
        tpl("mixed")
        tpl("tri3fan")
        tpl("chain2", search=2)
    return cfgs


def path(ctx, cfg):
    from gcmpy.names.network_names import NetworkNames as NN
    from gcmpy.names.tools_names import ToolsNames as TN
    from gcmpy.tools.markov_chain_monte_carlo_rewiring import MarkovChainMonteCarloRewiring

    if cfg["kind"] == "template":
        cfg, placement = mc.template_cfg(cfg)
        extras = None
    else:
        placement = mc.fork_placement(ctx, cfg)
        extras = mc.fork_extras(ctx, cfg)
    net, used = mc.build_network(cfg, placement, extras)
    T = len(used)
    before = mc.snapshot(net.G)
    # with several topologies the target dictionary is filled in the reverse of the names order (any order is legal)
    target, tabs = mc.make_target(ctx, net, used, "lazy", reverse_dict=len(used) > 1)
    mc.install_repeat_pruning(ctx)
    obj = ctx.guard("constructor-raised", MarkovChainMonteCarloRewiring,
                    {TN.NETWORK: net, TN.EJKS: target, TN.CONVERGENCE_LIMIT: 0, TN.SEARCH_LIMIT: cfg["search"]})

    nodes0, edges0 = before
    jd = {v: a for v, a in nodes0}

    def key_of(a, b, t):
        i = used.index(t)
        xa = tuple(x - (1 if k == i else 0) for k, x in enumerate(jd[a]))
        xb = tuple(x - (1 if k == i else 0) for k, x in enumerate(jd[b]))
        return mc.canon_key(xa + xb, T)

    desc = f"placement={placement} annotations={[jd[v] for v in sorted(jd)]}"

    def check_call(c):
        """Metropolis rule, checked as soon as the proposal has been evaluated (rejected proposals end in a pruned path)"""
        if len(c["draws"]) > 1:
            return
        r = c["draws"][0]["result"] if c["draws"] else None
        u0, v0 = c["u0"], c["v0"]
        num, den, missing = 1, 1, []

        def weight(x, y, t):
            ck = key_of(x, y, t)
            if ck in tabs[t].present:
                return tabs[t].present[ck]
            missing.append(ck)
            return 1

        for e in c["e0s"]:
            t = c["tops"][tuple(sorted(e))]
            u1 = e[1] if e[0] == u0 else e[0]
            num = num * weight(v0, u1, t)
            den = den * weight(u0, u1, t)
        for e in c["e1s"]:
            t = c["tops"][tuple(sorted(e))]
            v1 = e[1] if e[0] == v0 else e[0]
            num = num * weight(u0, v1, t)
            den = den * weight(v0, v1, t)
        d2 = f"{desc}: proposal corners {c['e0s']} <-> {c['e1s']} result={c['res']}"
        if r is None and missing:
            return  # decided without a draw because a pairing is absent from the target (the created-pairing obligations judge the outcome)
        ctx.require(not missing, "metropolis-rule", f"{d2}: the test was evaluated without consulting pairings {missing}", sig="metropolis:unconsulted")
        if missing:
            return
        if r is None:
            # no uniform variate was drawn for this proposal: only legitimate when the outcome does not depend on one
            # (accept with ratio >= 1, reject with ratio 0) for every target weight on this path
            ctx.require((num >= den) if c["res"] else (num <= 0), "metropolis-rule",
                        f"{d2}: decided without drawing a uniform variate although the ratio can lie strictly between 0 and 1", logic="QF_NRA", sig="metropolis:no-draw")
            return
        cond = (r * den < num) if c["res"] else (r * den >= num)
        ctx.require(cond, "metropolis-rule", f"{d2}: acceptance is not equivalent to r < prod(new pairings)/prod(old pairings)",
                    twin=((r * den >= num) if c["res"] else (r * den < num)), logic="QF_NRA", sig="metropolis:rule")

    calls = []
    inner = getattr(obj, "swap_condition", None)
    if inner is not None:
        def spy(G, e0s, e1s, u0, v0):
            n0 = len(ctx.rng_log)
            res = inner(G, e0s, e1s, u0, v0)
            calls.append({"e0s": [tuple(int(x) for x in e) for e in e0s], "e1s": [tuple(int(x) for x in e) for e in e1s], "u0": int(u0), "v0": int(v0),
                          "res": bool(res), "draws": [r for r in ctx.rng_log[n0:] if r["fn"] == "random"],
                          "tops": {tuple(sorted((int(a), int(b)))): G.edges[a, b][NN.TOPOLOGY] for e in list(e0s) + list(e1s) for a, b in [e]}})
            check_call(calls[-1])
            return res
        obj.swap_condition = spy
    else:
        ctx.note("mechanism obligation skipped: swap_condition not present")
    G2 = ctx.guard("rewire-raised", obj.rewire)
    nodes2, edges2 = mc.snapshot(G2)
    old_pairs = {e[0] for e in edges0}
    for (a, b), t, _ in edges2:
        if (a, b) in old_pairs:
            continue
        ck = key_of(a, b, t)
        tab = tabs[t]
        known = ck in tab.present
        ctx.require(known, "created-pairing-allowed",
                    f"{desc}: new edge ({a},{b}) [{t}] pairs excess degrees {ck} whose target entry is "
                    f"{'absent' if ck in tab.absent else 'never consulted'}", twin=(not known), sig="created-pairing:absent-or-unconsulted")
        if known:
            w = tab.present[ck]
            ctx.require(w > 0, "created-pairing-allowed", f"{desc}: new edge ({a},{b}) [{t}] pairs {ck} whose target weight can be zero",
                        twin=(w > 1), logic="QF_NRA", sig="created-pairing:zero-weight")
    ctx.observe("after", [list(map(list, (e[0] for e in edges2)))])
