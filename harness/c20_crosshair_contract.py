"""CrossHair contract for C20 (second, independent engine; thorough tier only).
`crosshair check` searches for an operation history on which DrawSet disagrees with a plain set."""
from typing import List, Tuple

from gcmpy.tools.draw_set import DrawSet

UNIVERSE = [(0, 1), (1, 2), (0, 2), (2, 3)]


def history_agrees(ops: List[Tuple[int, int]]) -> bool:
    """
    pre: len(ops) <= 5
    pre: all(0 <= k <= 1 and 0 <= e <= 3 for k, e in ops)
    post: _ == True
    """
    ds = DrawSet()
    model = set()
    for k, e in ops:
        el = UNIVERSE[e]
        if k == 0:
            ds.add(el)
            model.add(el)
        else:
            if el in model:
                ds.remove(el)
                model.discard(el)
            else:
                try:
                    ds.remove(el)
                    return False
                except Exception:
                    pass
        if len(ds) != len(model):
            return False
        if sorted(iter(ds)) != sorted(model):
            return False
        for u in UNIVERSE:
            if (u in ds) != (u in model):
                return False
    return True
