"""C10 - MPCC labels partition the edges into maximal-first disjoint cliques, for every graph inside
the bound, every size limit and every ordering the shuffle can produce among equal-sized cliques."""
import ast
import itertools
from math import factorial

import networkx as nx

from symx.core import all_, any_, ite

PROPERTY = "C10"
FUNCTIONS = ["gcmpy.covers.mpcc.MPCC", "networkx.enumerate_all_cliques (real implementation)"]
STUBS = ["random.shuffle -> symbolic permutation, concretised by forking because the shuffled items are lists; when n! exceeds the "
         "budget the permutation space is reduced (see assumptions)"]
BOUNDS = {
    "quick": "templates: triangles bridged by a triangle (7 vertices), two 4-cliques sharing an edge, a fan of two triangles plus a third through the same vertex, a windmill of three "
             "triangles, two 5-cliques sharing an edge with a triangle on each side (10 vertices, 23 edges), K10, K11; every labelled loop-free graph on 1..4 vertices (isolated vertices allowed) and every 5-vertex graph with <= 4 edges; 4-vertex graphs also with descending / mixed insertion order and as a second cover of "
             "one graph object after an edge was moved in place; size limit in "
             "{0,2,3,4}; full n! orderings when n! <= 120, otherwise the block reduction",
    "thorough": "every graph on <= 4 vertices, 5-vertex graphs with <= 6 edges, 6-vertex graphs with <= 7 edges; full n! when <= 720",
}
OUTSIDE = "graphs with 7+ vertices other than the listed templates; orderings outside the block reduction for larger clique lists; self-loops (excluded by the property)"
ASSUMPTIONS = [
    "block reduction (only when n! is over budget): the shuffled list is constrained to list the cliques grouped by size in ASCENDING size order "
    "(the adversarial interleaving for an implementation that forgets to sort by size), every order inside the classes of size >= 3 with at most 4 "
    "members is explored (larger classes: every rotation of the class plus its reversal), "
    "classes of size 1 and of size 2 with more than 3 members are explored in identity and reversed order only (2-cliques are pairwise edge-disjoint, "
    "so their relative order can only move ids). Exact for any implementation that orders by size after shuffling.",
]
EXPECTED_LABELS = ["graph-unchanged", "every-edge-labelled", "labels-well-formed", "label-classes-are-cliques", "ids-unique", "greedy-maximal"]
VALIDATE_EVERY = 300
FULL = {"quick": 120, "thorough": 720}


def configs(tier):
    q = tier == "quick"
    cfgs = []
    for n in range(1, 5):
        for ms in (0, 2, 3, 4):
            cfgs.append({"name": f"n{n}-max{ms}", "n": n, "max_size": ms, "maxe": n * (n - 1) // 2, "tier": tier})
    # vertices and edges inserted in descending / mixed order (adjacency and clique lists are then not sorted)
    for order in ("desc", "mixed"):
        for ms in (0, 3):
            cfgs.append({"name": f"n4-max{ms}-{order}", "n": 4, "max_size": ms, "maxe": 6, "tier": tier, "order": order})
    # a second cover of the same graph object after it was changed in place (same numbers of vertices and edges)
    for ms in (0, 3):
        cfgs.append({"name": f"n4-max{ms}-second-call", "n": 4, "max_size": ms, "maxe": 4, "tier": tier, "second": True})
    for ms in (0, 2, 3, 4):
        cfgs.append({"name": f"n5-max{ms}", "n": 5, "max_size": ms, "maxe": 4 if q else 6, "tier": tier})
    # cliques of 10 and 11 vertices (two-digit sizes in the labels), one fixed ordering of the shuffle and its reverse
    cfgs.append({"name": "K10-max0", "n": 10, "max_size": 0, "tier": tier, "fixed_graph": "K10"})
    cfgs.append({"name": "K11-max10", "n": 11, "max_size": 10, "tier": tier, "fixed_graph": "K11"})
    # triangles bridged by another triangle: fixed part plus symbolic pairs
    cfgs.append({"name": "n7-bridged-triangles-max0", "n": 7, "max_size": 0, "tier": tier,
                 "fixed_edges": [(0, 1), (0, 2), (1, 2), (3, 4), (3, 5), (4, 5), (2, 3)], "free_edges": [(2, 6), (3, 6), (1, 6), (4, 6)]})
    # two 4-cliques sharing an edge that is a side of one and a chord of the other (in member order), plus symbolic pairs
    k4 = lambda vs: [tuple(sorted(p)) for p in itertools.combinations(vs, 2)]
    cfgs.append({"name": "n6-two-K4-sharing-an-edge-max0", "n": 6, "max_size": 0, "tier": tier,
                 "fixed_edges": sorted(set(k4([0, 1, 2, 3]) + k4([0, 2, 4, 5]))), "free_edges": [(1, 4), (3, 5)]})
    # three triangles through one vertex, two of them sharing an edge, the third sharing only the vertex (every order of the three is explored)
    cfgs.append({"name": "n6-fan-of-two-triangles-plus-a-third-max0", "n": 6, "max_size": 0, "tier": tier,
                 "fixed_edges": [(0, 1), (0, 2), (1, 2), (0, 3), (2, 3), (0, 4), (0, 5), (4, 5)], "free_edges": [(1, 3), (3, 4)]})
    cfgs.append({"name": "n7-windmill-of-three-triangles-max0", "n": 7, "max_size": 0, "tier": tier,
                 "fixed_edges": [(0, 1), (0, 2), (1, 2), (0, 3), (0, 4), (3, 4), (0, 5), (0, 6), (5, 6)], "free_edges": [(2, 3), (4, 5)]})
    # two 5-cliques sharing an edge, a triangle on each side hanging on an edge of the 5-clique: whichever 5-clique loses the tie breaks
    # into 4-cliques that must still be served before the triangle
    k5a, k5b = [0, 1, 2, 3, 4], [3, 4, 5, 6, 7]
    cfgs.append({"name": "n10-two-K5-sharing-an-edge-with-side-triangles-max0", "n": 10, "max_size": 0, "tier": tier,
                 "fixed_edges": sorted(set(k4(k5a) + k4(k5b) + [(0, 8), (1, 8), (5, 9), (6, 9)])), "free_edges": []})
    # vertex ids with gaps (3v+2): ids are not positions
    for ms in (0, 3):
        cfgs.append({"name": f"n4-max{ms}-gapped-labels", "n": 4, "max_size": ms, "maxe": 6, "tier": tier, "gap": True})
    cfgs.append({"name": "n5-max0-gapped-labels", "n": 5, "max_size": 0, "maxe": 5, "tier": tier, "gap": True})
    cfgs.append({"name": "n5-max0-unordered-gapped-labels", "n": 5, "max_size": 0, "maxe": 5, "tier": tier, "gap": [0, 7, 1, 2, 3]})
    if not q:
        for ms in (0, 3):
            cfgs.append({"name": f"n6-e7-max{ms}", "n": 6, "max_size": ms, "maxe": 7, "tier": tier})
    return cfgs


def make_policy(limit):
    def policy(ctx, orig, ps, rec):
        n = len(orig)
        if factorial(n) <= limit:
            rec["reduction"] = "full"
            return
        rec["reduction"] = "blocks"
        ctx.note("shuffle explored under the block reduction")
        classes = {}
        for i, it in enumerate(orig):
            classes.setdefault(len(it), []).append(i)
        pos = 0
        for size in sorted(classes):
            idxs = classes[size]
            block = ps[pos:pos + len(idxs)]
            pos += len(idxs)
            if (size >= 3 and len(idxs) <= 4) or (size == 2 and len(idxs) <= 3) or len(idxs) == 1:
                for p in block:
                    ctx.assume(any_(p == i for i in idxs))
            elif size >= 3:
                # a large class of big cliques: every member first once (rotations of the class) plus the reversed order
                m = len(idxs)
                rot = ctx.fork_int(ctx.int(ctx.uniq(f"rot{size}"), 0, m))
                for j, p in enumerate(block):
                    ctx.assume_raw(p.e == (idxs[m - 1 - j] if rot == m else idxs[(j + rot) % m]))
            else:
                rev = ctx.bool(ctx.uniq(f"rev{size}"))
                revc = ctx.fork_bool(rev)
                for j, p in enumerate(block):
                    ctx.assume_raw(p.e == (idxs[len(idxs) - 1 - j] if revc else idxs[j]))
    return policy


def big_list_orders(ctx, orig, rec):
    """hundreds of cliques (K10, K11): the shuffle is explored as the identity and the reversed order only"""
    if len(orig) <= 300:
        return None
    rec["reduction"] = "identity/reverse"
    ctx.note("shuffle explored as identity and reversal only (very large clique list)")
    rev = ctx.fork_bool(ctx.bool(ctx.uniq("revall")))
    n = len(orig)
    return list(range(n - 1, -1, -1)) if rev else list(range(n))


def parse(label):
    parts = label.split("-")
    return int(parts[0]), ast.literal_eval(parts[1]), int(parts[-1])


def path(ctx, cfg):
    from gcmpy.covers.mpcc import MPCC

    n, ms = cfg["n"], cfg["max_size"]
    pairs = list(itertools.combinations(range(n), 2))
    if cfg.get("fixed_graph"):
        edges = list(pairs)
    elif cfg.get("fixed_edges"):
        edges = sorted([tuple(e) for e in cfg["fixed_edges"]] + [tuple(p) for p in cfg["free_edges"] if ctx.fork_bool(ctx.bool(f"adj{p[0]}_{p[1]}"))])
    else:
        bits = [ctx.bool(f"adj{a}_{b}") for a, b in pairs]
        cnt = 0
        for b in bits:
            cnt = cnt + ite(b, 1, 0)
        if pairs:
            ctx.assume(cnt <= cfg["maxe"])
        edges = [p for p, b in zip(pairs, bits) if ctx.fork_bool(b)]
    G = nx.Graph()
    order = cfg.get("order", "asc")
    nodes = list(range(n))
    if cfg.get("gap"):
        lab = (lambda v: cfg["gap"][v]) if isinstance(cfg["gap"], list) else (lambda v: 3 * v + 2)
        edges = [(lab(a), lab(b)) for a, b in edges]
        pairs = [(lab(a), lab(b)) for a, b in pairs]
        nodes = [lab(v) for v in nodes]
    if order == "asc":
        G.add_nodes_from(nodes)
        G.add_edges_from(edges)
    elif order == "desc":
        G.add_nodes_from(reversed(range(n)))
        G.add_edges_from((b, a) for a, b in reversed(edges))
    else:
        G.add_nodes_from([2, 0, 3, 1][:n] if n == 4 else range(n))
        G.add_edges_from((b, a) if (a + b) % 2 else (a, b) for a, b in edges[::2] + edges[1::2])
    ctx.shuffle_policy = make_policy(FULL[cfg["tier"]])
    ctx.shuffle_concrete = big_list_orders
    desc = f"n={n} edges={edges if len(edges) < 20 else str(len(edges)) + ' edges'} insertion={order} max_size={ms}"
    if cfg.get("second"):
        # first cover, then move one edge in place (vertex and edge counts unchanged), then cover the same object again
        def identity(c, orig, ps, rec):  # the order of the first cover is irrelevant for the second one: keep it fixed
            for j, p in enumerate(ps):
                c.assume(p == j)

        ctx.shuffle_policy = identity
        ctx.guard("mpcc-raised", MPCC, G, ms)
        ctx.shuffle_policy = make_policy(FULL[cfg["tier"]])
        absent = [p for p in pairs if p not in edges]
        if edges and absent:
            i = ctx.fork_int(ctx.int("drop", 0, len(edges) - 1))
            j = ctx.fork_int(ctx.int("add", 0, len(absent) - 1))
            G.remove_edge(*edges[i])
            G.add_edge(*absent[j])
            edges = sorted([e for k, e in enumerate(edges) if k != i] + [absent[j]])
            for a, b in G.edges():
                G.edges[a, b].pop("clique", None)
            desc = f"n={n} second cover of one graph object after moving an edge: edges={edges} max_size={ms}"
    out = ctx.guard("mpcc-raised", MPCC, G, ms)
    order = None
    for rec in ctx.rng_log:
        if rec["fn"] == "shuffle":
            order = [ctx.fork_int(p) for p in rec["perm"]]
    desc += f" shuffle={order if order is None or len(order) < 40 else 'identity' if order[0] == 0 else 'reversed'}"
    same = sorted(out.nodes()) == sorted(nodes) and sorted(map(sorted, out.edges())) == sorted(map(sorted, edges))
    ctx.require(same, "graph-unchanged", f"{desc}: returned graph has nodes {sorted(out.nodes())} edges {sorted(map(sorted, out.edges()))}", twin=(not same) if edges else None)
    labels = {}
    unl = []
    for a, b in out.edges():
        lab = out.edges[a, b].get("clique")
        if not isinstance(lab, str):
            unl.append((a, b))
        else:
            labels[frozenset((a, b))] = lab
    ctx.require(not unl, "every-edge-labelled", f"{desc}: edges without a label: {unl}", twin=bool(unl) or None if edges else None)
    if unl:
        return
    parsed = {}
    try:
        for e, lab in labels.items():
            parsed[e] = parse(lab)
        okp = all(isinstance(s, int) and isinstance(m, list) and isinstance(i, int) for s, m, i in parsed.values())
    except Exception:  # noqa
        okp = False
    ctx.require(okp, "labels-well-formed", f"{desc}: labels {sorted(labels.values())} do not parse as size-members-id")
    if not okp:
        return
    by_label = {}
    for e, lab in labels.items():
        by_label.setdefault(lab, set()).add(e)
    E = {frozenset(e) for e in edges}
    bad = []
    for lab, es in by_label.items():
        s, m, i = parse(lab)
        want = {frozenset(p) for p in itertools.combinations(m, 2)}
        if es != want or s != len(m) or len(set(m)) != len(m) or (ms > 0 and s > ms) or not want <= E:
            bad.append(lab)
    ctx.require(not bad, "label-classes-are-cliques", f"{desc}: labels whose edge class is not exactly the pairs of its member list (or over the limit): {bad}; all={sorted(by_label)}",
                twin=bool(bad) or None if edges else None)
    ids = {}
    for lab in by_label:
        s, m, i = parse(lab)
        ids.setdefault(i, set()).add(tuple(m))
    dup = {i: v for i, v in ids.items() if len(v) > 1}
    ctx.require(not dup and len(ids) == len(by_label), "ids-unique", f"{desc}: ids shared between cliques: {dup}")
    # greedy maximality: every clique (>= 2 vertices, within the limit) has an edge assigned to a cover clique at least as large
    viol = []
    for c in nx.enumerate_all_cliques(nx.Graph(edges)):
        if len(c) < 2 or (ms > 0 and len(c) > ms):
            continue
        if not any(parsed[frozenset(p)][0] >= len(c) for p in itertools.combinations(c, 2)):
            viol.append(c)
    ctx.require(not viol, "greedy-maximal", f"{desc}: cliques {viol} have every edge assigned to a smaller cover clique; labels={sorted(by_label)}",
                twin=bool(viol) or None if edges else None)
    ctx.observe("labels", sorted(by_label))
