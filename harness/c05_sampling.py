"""C05 - sampled joint degree sequences are handshake-consistent minimal perturbations of N weighted draws."""
from symx.core import SymInt, all_, any_, eq, ite

PROPERTY = "C05"
FUNCTIONS = ["gcmpy.joint_degree.joint_degree.JointDegree.sample_jds_from_jdd", "JointDegree.handshaking_lemma",
             "gcmpy.joint_degree.joint_degree_loaders.joint_degree_manual.JointDegreeManual"]
STUBS = ["random.choices(population, weights | cum_weights, k) -> k fresh indices restricted to positive-weight items; items selected as If-chains (no fork)",
         "random.randrange / choice -> fresh bounded index", "random.random -> fresh real in [0,1)",
         "handshaking_lemma (public method, when present) is wrapped by a recorder of its argument: the N drawn keys"]
BOUNDS = {
    "quick": "N in 1..3; one topology: 1..3 distinct keys with entries 0..2; two topologies: 1..2 keys (entries 0..2, 0..1 at N=3) and 3 keys "
             "with entries 0..1 at N=2; positive symbolic weights (not normalised); motif-size vectors [1],[2],[3],[2,3],[3,2],[1,2],[3,3],[2,2],[2,3,2]",
    "thorough": "N in 1..4; one topology: up to 4 keys, entries 0..3; two topologies: up to 3 keys (2 at N=4), entries 0..2",
}
OUTSIDE = "N>4, more than 4 keys or 2 topologies; draw mechanisms other than (1) one weighted random.choices call or (2) inversion of the " \
          "dictionary-order cumulative weights with one random.random() per draw (confirmed when the path condition entails the interval, " \
          "otherwise the law is left to the law-by-measure configurations: four concrete weight vectors, N<=2, motif size 1, where the probability of every path is the volume of its box of uniform variates and the table over all paths must be the product law); statistical quality of random.choices / random.random"
ASSUMPTIONS = ["random.choices draws index i with probability weights[i]/sum(weights) (CPython) - the check proves that it is called once "
               "with k=N, the keys in dictionary order and weights proportional to the distribution's values",
               "motif sizes are positive integers"]
EXPECTED_LABELS = ["length", "divisible", "non-negative", "never-removes", "minimal-addition", "entries-are-tuples", "weighted-draw"]
VALIDATE_EVERY = 25
SIZES = {1: [[1], [2], [3]], 2: [[2, 3], [3, 2], [1, 2], [3, 3], [2, 2]]}


def configs(tier):
    q = tier == "quick"
    cfgs = []

    def add(K, sizes, N, nk, D):
        cfgs.append({"name": f"K{K}-sizes{sizes}-N{N}-keys{nk}-D{D}", "K": K, "sizes": sizes, "N": N, "nk": nk, "D": D})

    for sizes in SIZES[1]:
        for N in range(1, 4 if q else 5):
            add(1, sizes, N, 3 if q else 4, 2 if q else 3)
    for sizes in SIZES[2]:
        for N in range(1, 4 if q else 5):
            if q:
                add(2, sizes, N, 2, 2 if N < 3 else 1)
            else:
                add(2, sizes, N, 3 if N < 4 else 2, 2)
    if q:
        add(2, [2, 3], 2, 3, 1)
    cfgs.append({"name": "K3-sizes[2, 3, 2]-N2-keys2-D1", "K": 3, "sizes": [2, 3, 2], "N": 2, "nk": 2, "D": 1})
    # key components of other integer types (numpy signed / unsigned scalars, as in an empirical sequence held in an array)
    for dt in ("uint8", "uint32", "int64"):
        for sizes in ([3], [5]):
            cfgs.append({"name": f"numpy-{dt}-sizes{sizes}", "K": 1, "sizes": sizes, "N": 2, "nk": 2, "D": 2, "numpy": dt})
    # the law itself for samplers built on random.random(): concrete (unnormalised) weights, motif size 1 (the sample IS the draw); every
    # path's probability is the volume of its box of uniform variates and the table over all paths must be the product law
    for nm, keys, W, N in (("ints-N1", [(1,), (0,), (2,)], [3, 1, 2], 1), ("ints-N2", [(1,), (0,), (2,)], [3, 1, 2], 2),
                           ("floats-N1", [(2,), (5,)], [0.25, 0.125], 1), ("two-columns-N2", [(0, 1), (1, 0), (1, 1)], [1, 5, 2], 2)):
        cfgs.append({"name": f"law-by-measure-{nm}", "measure": True, "keys": keys, "W": W, "N": N, "K": len(keys[0]), "sizes": [1] * len(keys[0]), "nk": len(keys), "D": 5})
    # the distribution of one loader object is replaced between two samplings (setter / re-created empirical table)
    for how in ("setter", "empirical"):
        cfgs.append({"name": f"resample-{how}-N2", "K": 1, "sizes": [2], "N": 2, "nk": 2, "D": 2, "resample": how})
        cfgs.append({"name": f"resample-{how}-K2-N2", "K": 2, "sizes": [2, 3], "N": 2 if q else 3, "nk": 2, "D": 1, "resample": how})
    return cfgs


def fork_keys(ctx, K, D, nk_max):
    nk = ctx.fork_int(ctx.int("nkeys", 1, nk_max))
    keys = []
    for j in range(nk):
        ent = [ctx.int(f"k{j}_{i}", 0, D) for i in range(K)]
        for prev in keys:
            ctx.assume(any_(a != b for a, b in zip(ent, prev)))
        key = tuple(ctx.fork_int(e) for e in ent)
        if j >= 2:
            ctx.assume(keys[0] < key)
        keys.append(key)
    return keys


def spy_handshake(loader):
    """records (a copy of) every argument handed to the public handshaking_lemma method, if the loader has one"""
    cap = []
    inner = getattr(loader, "handshaking_lemma", None)
    if inner is None:
        return None

    def spy(jds, *a, **kw):
        try:
            cap.append([tuple(e) for e in jds])
        except Exception:  # noqa
            cap.append(None)
        return inner(jds, *a, **kw)

    try:
        loader.handshaking_lemma = spy
    except Exception:  # noqa  (slots / read-only)
        return None
    return cap


def path(ctx, cfg):
    from gcmpy.joint_degree.joint_degree_loaders.joint_degree_empirical import JointDegreeEmpirical
    from gcmpy.joint_degree.joint_degree_loaders.joint_degree_manual import JointDegreeManual
    from gcmpy.names.joint_degree_names import JointDegreeNames as JN

    K, sizes, N = cfg["K"], cfg["sizes"], cfg["N"]
    if cfg.get("measure"):
        return path_measure(ctx, cfg, JointDegreeManual, JN)
    how = cfg.get("resample")
    if how == "empirical":
        # empirical loader: observed sequence 1 -> sample -> sequence 2 through the public setter + create_jdd() -> sample
        def seq(tag):
            L = ctx.fork_int(ctx.int(f"len{tag}", 1, 2))
            return [tuple(ctx.fork_int(ctx.int(f"s{tag}{j}_{i}", 0, cfg["D"])) for i in range(K)) for j in range(L)]

        s1, s2 = seq("a"), seq("b")
        loader = ctx.guard("loader-raised", JointDegreeEmpirical, {JN.JDS: list(s1), JN.MOTIF_SIZES: list(sizes)})
        ctx.guard("sampling-raised", loader.sample_jds_from_jdd, 1)  # one draw is enough to populate any per-object state
        loader.empirical_jds = list(s2)
        ctx.guard("loader-raised", loader.create_jdd)
        keys = list(dict.fromkeys(s2))
        W = [s2.count(k) for k in keys]
        n0 = len(ctx.rng_log)
        cap = spy_handshake(loader)
        out = ctx.guard("sampling-raised", loader.sample_jds_from_jdd, N)
        return check_sample(ctx, f"empirical {s1} then {s2} sizes={sizes} N={N} (second sample)", out, keys, W, sizes, N, K, n0, cap)
    if cfg.get("numpy"):
        import numpy as np

        dt = getattr(np, cfg["numpy"])
        N = ctx.fork_int(ctx.int("N", 1, 3))
        keys = [(dt(1),), (dt(2),), (dt(4),)]
        W = [0.5, 0.25, 0.25]
        loader = ctx.guard("loader-raised", JointDegreeManual, {JN.JDD: dict(zip(keys, W)), JN.MOTIF_SIZES: list(sizes)})
        n0 = len(ctx.rng_log)
        cap = spy_handshake(loader)
        out = ctx.guard("sampling-raised", loader.sample_jds_from_jdd, N)
        out = [tuple(int(x) for x in e) if type(e) is tuple else e for e in out]
        for rec in ctx.rng_log[n0:]:
            if rec["fn"] == "choices" and rec["weights"] is not None:
                rec["result"] = [tuple(int(x) for x in e) for e in rec["result"]]
        if cap:
            cap[:] = [[tuple(int(x) for x in e) for e in c] if c is not None else None for c in cap]
        return check_sample(ctx, f"numpy {cfg['numpy']} keys {[int(k[0]) for k in keys]} sizes={sizes} N={N}", out, keys, W, sizes, N, K, n0, cap)
    keys = fork_keys(ctx, K, cfg["D"], cfg["nk"])
    W = [ctx.real(f"w{j}", 0, lo_strict=True) for j in range(len(keys))]
    jdd = {k: w for k, w in zip(keys, W)}
    desc = f"keys={keys} sizes={sizes} N={N}"
    loader = ctx.guard("loader-raised", JointDegreeManual, {JN.JDD: jdd, JN.MOTIF_SIZES: list(sizes)})
    n0 = len(ctx.rng_log)
    cap = spy_handshake(loader) if how is None else None
    out = ctx.guard("sampling-raised", loader.sample_jds_from_jdd, N if how is None else 1)
    if how == "setter":
        # replace the distribution through the public setter and sample again: the second sample must follow the new one
        keys = [tuple((x + 1 + j) % (cfg["D"] + 1) for x in k) for j, k in enumerate(keys)]
        keys = list(dict.fromkeys(keys))
        W = [ctx.real(f"v{j}", 0, lo_strict=True) for j in range(len(keys))]
        loader.jdd = {k: w for k, w in zip(keys, W)}
        desc = f"after replacing the distribution by keys={keys} sizes={sizes} N={N} (second sample)"
        n0 = len(ctx.rng_log)
        cap = spy_handshake(loader)
        out = ctx.guard("sampling-raised", loader.sample_jds_from_jdd, N)
    return check_sample(ctx, desc, out, keys, W, sizes, N, K, n0, cap, free_weights=True)


def path_measure(ctx, cfg, JointDegreeManual, JN):
    from fractions import Fraction

    keys, W, N = [tuple(k) for k in cfg["keys"]], cfg["W"], cfg["N"]
    loader = ctx.guard("loader-raised", JointDegreeManual, {JN.JDD: dict(zip(keys, W)), JN.MOTIF_SIZES: list(cfg["sizes"])})
    n0 = len(ctx.rng_log)
    out = ctx.guard("sampling-raised", loader.sample_jds_from_jdd, N)
    log = ctx.rng_log[n0:]
    uni = [c for c in log if c["fn"] == "random"]
    if any(c["fn"] == "choices" and c["weights"] is not None for c in log) or not uni:
        ctx.note("law-by-measure not applicable: the sampler does not draw through random.random() (decided by the weighted-draw obligations)")
        return
    if len(out) != N:
        ctx.require(False, "length", f"measure config {cfg['name']}: {len(out)} entries returned")
        return
    outc = [[ctx.fork_int(x) for x in e] for e in out]
    if ctx.mode == "sym":
        vol = ctx.box_volume([c["result"] for c in uni])
        if vol is None:
            ctx.note("undecided: the region of the uniform variates on a path is not a box (law-by-measure not decided)")
            return
        ctx.extra_values = {"__volume": f"{vol.numerator}/{vol.denominator}"}
    else:
        if "__volume" not in ctx.values:
            return
        vol = Fraction(ctx.values["__volume"])
    ctx.note("random()-based sampler: the law is decided from the measure of the paths")
    ctx.contribute("law", {"out": outc, "p": [vol.numerator, vol.denominator]})
    ctx.observe("out", outc)


def expected_labels(agg):
    if any(k.startswith("random()-based sampler") for k in agg.notes):
        return EXPECTED_LABELS + ["law-by-measure"]
    return EXPECTED_LABELS


def finalize(cfg, tag, records, complete):
    from fractions import Fraction

    if tag != "law":
        return []
    keys, N = [tuple(k) for k in cfg["keys"]], cfg["N"]
    W = [Fraction(w) for w in cfg["W"]]
    tot = sum(W)
    prob = {}
    for r in records:
        k = tuple(tuple(e) for e in r["payload"]["out"])
        prob[k] = prob.get(k, 0) + Fraction(*r["payload"]["p"])
    total = sum(prob.values())
    if not complete or abs(total - 1) > Fraction(1, 10 ** 12):
        return [{"label": "law-by-measure", "undecided": f"law-by-measure table incomplete (total measure {float(total)}): undecided"}]
    bad = []
    import itertools

    for combo in itertools.product(range(len(keys)), repeat=N):
        want = Fraction(1)
        for i in combo:
            want *= W[i] / tot
        got = prob.get(tuple(keys[i] for i in combo), Fraction(0))
        if abs(got - want) > Fraction(1, 10 ** 12):
            bad.append((tuple(keys[i] for i in combo), float(got), float(want)))
    extra = [k for k in prob if any(e not in keys for e in k)]
    ok = not bad and not extra
    return [{"label": "law-by-measure", "ok": ok, "sig": "law-by-measure",
             "detail": f"keys={keys} weights={cfg['W']} N={N}: (sample, probability found, probability required) {bad[:4]}" +
                       (f"; samples that are not keys: {extra[:3]}" if extra else "")}]


def check_sample(ctx, desc, out, keys, W, sizes, N, K, n0, cap=None, free_weights=False):
    ctx.require(isinstance(out, list) and len(out) == N, "length", f"{desc}: {len(out)} entries returned", twin=(len(out) == N + 1))
    if len(out) != N:
        return
    tuples_ok = all(type(e) is tuple and len(e) == K for e in out)
    ctx.require(tuples_ok, "entries-are-tuples", lambda: f"{desc}: entries {[type(e).__name__ for e in out]} - patched entries are not tuples "
                "(unhashable: rejected by the empirical loader / Counter)", twin=(not tuples_ok), sig="entries-are-tuples")
    if not all(len(e) == K for e in out):
        return
    conds_div, conds_nn = [], []
    for k in range(K):
        s = 0
        for e in out:
            s = s + e[k]
            conds_nn.append(e[k] >= 0)
        conds_div.append(eq(s % sizes[k], 0))
    ctx.require(all_(conds_div), "divisible", lambda: f"{desc}: column sums of {out} are not divisible by {sizes}",
                twin=all_(eq((sum_(e[k] for e in out) + 1) % sizes[k], 0) for k in range(K)) if max(sizes) > 1 else None)
    ctx.require(all_(conds_nn), "non-negative", f"{desc}: negative entry in {out}")
    log = ctx.rng_log[n0:]
    # --- which weighted-draw mechanism?  (1) one weighted random.choices call  (2) inversion of the cumulative weights with one
    # random.random() per draw.  The N drawn keys are the result of (1) and / or what the public handshaking_lemma method was handed.
    ch = [c for c in log if c["fn"] == "choices" and c["weights"] is not None]
    handed = cap[0] if cap and len(cap) == 1 and cap[0] is not None and len(cap[0]) == N else None
    uni = [c for c in log if c["fn"] == "random"]
    pickers = ("choices", "randrange", "sample", "choice")
    drawn = None
    if len(ch) == 1 and not uni and all(c["fn"] in pickers for c in log):
        rec = ch[0]
        ok_call = rec["k"] == N and list(rec["population"]) == list(keys) and rec["weights"] is not None and len(rec["weights"]) == len(keys)
        ctx.require(ok_call, "weighted-draw", f"{desc}: random.choices called with population={rec['population']} k={rec['k']}", twin=(not ok_call))
        if ok_call:
            w = rec["weights"]
            ctx.require(all_(eq(w[i] * W[0], w[0] * W[i]) for i in range(len(keys))), "weighted-draw",
                        f"{desc}: weights handed to random.choices are not proportional to the distribution",
                        twin=all_(eq(w[i] * W[0], w[0] * W[i] * 2) for i in range(len(keys))) if len(keys) > 1 else None, logic="QF_NRA")
        drawn = rec["result"]
        if handed is not None and len(drawn) == N:
            same = all_(eq(a, b) for h, d in zip(handed, drawn) for a, b in zip(h, d))
            ctx.require(same, "weighted-draw", lambda: f"{desc}: drawn {drawn} but handshaking_lemma was handed {handed}", sig="weighted-draw:altered-before-handshake")
    elif not ch and len(uni) == N and all(c["fn"] == "random" for c in log[:N]) and all(c["fn"] in pickers for c in log[N:]) and handed is not None:
        # inversion: draw j must be the key whose cumulative-weight interval (dictionary order) contains r_j * total.  Only a
        # confirmation is possible here (another order of the keys would be just as right), so a failed entailment is 'undecided'.
        idx = []
        for h in handed:
            hh = tuple(x.concrete() if isinstance(x, SymInt) else x for x in h)
            idx.append(keys.index(hh) if hh in keys else None)
        are_keys = all(i is not None for i in idx)
        ctx.require(are_keys, "weighted-draw", lambda: f"{desc}: handshaking_lemma was handed {handed}, not {N} keys of the distribution", sig="weighted-draw:not-keys")
        if not are_keys:
            return
        tot = sum_(W)
        goals = []
        for j, i in enumerate(idx):
            r = uni[j]["result"]
            lo = sum_(W[:i])
            goals.append(r * tot >= lo)
            if i < len(keys) - 1:
                goals.append(r * tot < lo + W[i])
        proved = (bool(all_(goals)) if ctx.mode != "sym" else ctx.entails(list(ctx.pc), all_(goals)) == "unsat")
        if proved:
            ctx.require(all_(goals), "weighted-draw", f"{desc}: inverse-CDF draw outside the key's cumulative-weight interval", logic="QF_NRA")
        else:
            ctx.note("undecided: inverse-CDF sampler whose intervals are not the dictionary-order cumulative weights (law not decided)")
        drawn = handed
    else:
        if not ch and not uni and free_weights and len(keys) >= 2:
            # arbitrary positive real weights cannot be realised without a weighted draw or a uniform variate
            ctx.require(False, "weighted-draw", f"{desc}: no weighted draw was made for this sample (RNG calls: {[c['fn'] for c in log]})", sig="weighted-draw:none")
            return
        if handed is not None:
            drawn = handed
            ctx.note("undecided: unrecognised weighted-draw mechanism (law not decided; minimality checked against what handshaking_lemma was handed)")
        else:
            ctx.note("undecided: unrecognised weighted-draw mechanism and no handshaking_lemma call to observe (law / minimality not decided)")
            return
    if drawn is None or len(drawn) != N:
        ctx.require(False, "weighted-draw", f"{desc}: {None if drawn is None else len(drawn)} keys drawn for N={N}", sig="weighted-draw:count")
        return
    conds_add, conds_min = [], []
    for k in range(K):
        tot_d, tot_add = 0, 0
        for e, dr in zip(out, drawn):
            conds_add.append(e[k] - dr[k] >= 0)
            tot_add = tot_add + (e[k] - dr[k])
            tot_d = tot_d + dr[k]
        need = (sizes[k] - tot_d % sizes[k]) % sizes[k]
        conds_min.append(eq(tot_add, need))
    ctx.require(all_(conds_add), "never-removes", lambda: f"{desc}: drawn {drawn} -> returned {out}: a stub was removed")
    ctx.require(all_(conds_min), "minimal-addition", lambda: f"{desc}: drawn {drawn} -> returned {out}: not the fewest added stubs",
                twin=all_(eq(sum_((e[k] - dr[k]) for e, dr in zip(out, drawn)), sizes[k]) for k in range(K)))
    ctx.observe("out", [list(e) for e in out])
    ctx.observe("drawn", [list(e) for e in drawn])


def sum_(xs):
    t = 0
    for x in xs:
        t = t + x
    return t
