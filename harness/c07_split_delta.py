"""C07 - split-degree and delta loaders preserve the overall degree law (identities over symbolic reals)."""
import itertools

from symx.core import all_, eq

PROPERTY = "C07"
FUNCTIONS = ["gcmpy.joint_degree.joint_degree_loaders.joint_degree_split_degree.JointDegreeSplitDegree (create_jdd, get_valid_joint_degrees, "
             "calc_prob_of_joint_degree, resolve_degree)", "joint_degree_delta.JointDegreeDelta.create_jdd", "joint_degree.JointDegree.normalise_jdd",
             "gcmpy.joint_degree.joint_degree_distribution.JointDegreeDistribution.load_joint_degree"]
STUBS = ["the overall degree function fp is a harness lookup table of fresh positive reals"]
BOUNDS = {
    "quick": "1..3 clique topologies, per-topology probabilities p_i symbolic in (0,1], degree range [lo,hi) with lo in 0..2 and width 1..3 (k<=4), "
             "4 topologies with lo in 3..4 and width 1..2 (k<=6), "
             "fp(k) fresh positive reals; delta: every target from lo-1 to hi+1; constructor and dispatcher",
    "thorough": "1..4 topologies, width 1..4, lo in 0..3 (k<=7)",
}
OUTSIDE = "degrees above 7, more than 4 topologies; floating-point rounding"
ASSUMPTIONS = ["the degree range is read as [lo,hi) or [lo,hi] (both accepted, but it must be the same reading whatever the target)",
               "fp(k)>0; p_i symbolic in (0,1] or exactly 0 for topologies other than the first",
               "oracle: splits of k enumerated independently as solutions of sum (i+1)*jd_i = k"]
EXPECTED_LABELS = ["support", "overall-law", "within-degree-split", "sums-to-one"]
VALIDATE_EVERY = 10


def configs(tier):
    q = tier == "quick"
    cfgs = []
    for T in range(1, 4 if q else 5):
        for kind in ("split", "delta"):
            for via in (("direct", "enum") if T == 2 else ("direct",)):
                cfgs.append({"name": f"{kind}-T{T}-{via}", "kind": kind, "T": T, "W": 3 if q else 4, "LO": 2 if q else 3, "via": via})
    if q:
        # four topologies (the property's upper end) on a narrow range that contains degrees >= 4, where all four columns can be non-zero
        for kind in ("split", "delta"):
            cfgs.append({"name": f"{kind}-T4-direct-k3to6", "kind": kind, "T": 4, "W": 2, "LO": 4, "LO_MIN": 3, "via": "direct"})
    cfgs.append({"name": "split-T2-str", "kind": "split", "T": 2, "W": 2, "LO": 1, "via": "str"})
    for kind in ("split", "delta"):
        cfgs.append({"name": f"{kind}-T2-motif-sizes[2, 4]", "kind": kind, "T": 2, "W": 3, "LO": 2, "via": "direct", "motif_sizes": [2, 4]})
        cfgs.append({"name": f"{kind}-T2-motif-sizes[3, 2]", "kind": kind, "T": 2, "W": 2, "LO": 2, "via": "direct", "motif_sizes": [3, 2]})
    for kind in ("split", "delta"):
        cfgs.append({"name": f"{kind}-T2-second-loader-same-params", "kind": kind, "T": 2, "W": 2, "LO": 2, "via": "direct", "twice": True})
        cfgs.append({"name": f"{kind}-T3-second-loader-same-params", "kind": kind, "T": 3, "W": 2, "LO": 1, "via": "direct", "twice": True})
    # degrees above 256 (identity vs equality of Python ints): concrete probabilities, two topologies
    cfgs.append({"name": "delta-T2-degrees-around-258", "kind": "delta", "T": 2, "W": 2, "LO": 257, "LO_MIN": 257, "via": "direct", "concrete_probs": [0.5, 0.25]})
    # probability vectors with entries that are exactly 0 (that topology is never used)
    for kind in ("split", "delta"):
        cfgs.append({"name": f"{kind}-T2-zero1", "kind": kind, "T": 2, "W": 3, "LO": 2, "via": "direct", "zeros": [1]})
        cfgs.append({"name": f"{kind}-T3-zero1", "kind": kind, "T": 3, "W": 3 if q else 4, "LO": 2, "via": "direct", "zeros": [1]})
        cfgs.append({"name": f"{kind}-T3-zero12", "kind": kind, "T": 3, "W": 3, "LO": 2, "via": "direct", "zeros": [1, 2]})
    return cfgs


def splits(k, T):
    return [jd for jd in itertools.product(*[range(0, k // (i + 1) + 1) for i in range(T)]) if sum((i + 1) * x for i, x in enumerate(jd)) == k]


def path(ctx, cfg):
    from gcmpy.joint_degree.joint_degree_distribution import JointDegreeDistribution
    from gcmpy.joint_degree.joint_degree_loaders.joint_degree_delta import JointDegreeDelta
    from gcmpy.joint_degree.joint_degree_loaders.joint_degree_split_degree import JointDegreeSplitDegree
    from gcmpy.joint_degree.joint_degree_type import JointDegreeType
    from gcmpy.names.joint_degree_names import JointDegreeNames as JN

    T, kind, via = cfg["T"], cfg["kind"], cfg["via"]
    lo = ctx.fork_int(ctx.int("lo", cfg.get("LO_MIN", 0), cfg["LO"]))
    hi = ctx.fork_int(ctx.int("hi", lo + 1, lo + cfg["W"]))
    zeros = cfg.get("zeros", [])
    probs = [0.0 if i in zeros else ctx.real(f"p{i}", 0, 1, lo_strict=True) for i in range(T)]
    if cfg.get("concrete_probs"):
        probs = list(cfg["concrete_probs"])
    ftab = {}

    def fp(k):
        k = ctx.fork_int(k)
        if k not in ftab:
            ftab[k] = ctx.real(f"fp{k}", 0, lo_strict=True)
        return ftab[k]

    # the i-th topology costs i+1 edges whatever the motif sizes are called; some configurations use sizes that are not 2,3,4,...
    msz = list(cfg.get("motif_sizes") or range(2, 2 + T))
    params = {JN.FP: fp, JN.PROBS: list(probs), JN.MOTIF_SIZES: msz, JN.LOW_HIGH_DEGREE_BOUND: (lo, hi)}
    target = None
    if kind == "delta":
        target = ctx.fork_int(ctx.int("target", lo - 1, hi + 1))
        params[JN.TARGET_K] = target
    cls = JointDegreeSplitDegree if kind == "split" else JointDegreeDelta
    typ = "split_degree" if kind == "split" else "delta"

    def build():
        if via == "direct":
            return cls(params)
        p = dict(params)
        p[JN.JOINT_DEGREE_TYPE] = JointDegreeType(typ) if via == "enum" else typ
        return JointDegreeDistribution.load_joint_degree(p)

    probs_in = list(probs)
    obj = ctx.guard("loader-raised", build)
    same_in = len(params[JN.PROBS]) == len(probs_in) and all_(eq(a, b) for a, b in zip(params[JN.PROBS], probs_in))
    ctx.require(same_in, "support", f"{kind} T={T}: the caller's probability list was modified", sig="input-mutated")
    if cfg.get("twice"):
        obj = ctx.guard("loader-raised", build)  # a second loader built from the very same parameter objects
    jdd = obj.jdd
    desc = f"{kind} T={T} range=({lo},{hi}) target={target}"
    deg = lambda jd: sum((i + 1) * x for i, x in enumerate(jd))
    ks_seen = sorted({deg(jd) for jd in jdd}) if all(len(jd) == T for jd in jdd) else None
    rng = None
    for cand in (list(range(lo, hi)), list(range(lo, hi + 1))):
        if ks_seen == cand:
            rng = cand
    ctx.require(rng is not None, "support", f"{desc}: degrees present {ks_seen}, expected {list(range(lo, hi))} (or up to {hi})",
                twin=(ks_seen == list(range(lo, hi + 2))), sig="support")
    if rng is None:
        return
    # both readings of the range are accepted, but it must be ONE reading: the same bounds given to a delta loader whose target is far
    # outside the range must show the same set of degrees
    ref_params = dict(params)
    ref_params[JN.TARGET_K] = hi + 50
    ref = ctx.guard("loader-raised", JointDegreeDelta, ref_params)
    ref_ks = sorted({deg(jd) for jd in ref.jdd})
    ctx.require(ref_ks == ks_seen, "support", f"{desc}: degrees present {ks_seen}, but the same bounds with a far-away target give {ref_ks}",
                sig="support-range-depends-on-target")
    want_keys = set()
    for k in rng:
        if kind == "split" or k == target:
            want_keys |= set(splits(k, T))
        else:
            want_keys.add(tuple([k] + [0] * (T - 1)))
    ctx.require(set(jdd) == want_keys, "support", f"{desc}: keys {sorted(jdd)} expected {sorted(want_keys)}", sig="support-keys")
    if set(jdd) != want_keys:
        return
    if cfg.get("concrete_probs"):
        return  # concrete float probabilities: only the support is compared (the library's own float sums are already rounded)
    if zeros:
        dead = [jd for jd in want_keys if any(jd[i] > 0 for i in zeros) and (kind == "split" or deg(jd) == target)]
        ctx.require(all_(eq(jdd[jd], 0) for jd in dead), "within-degree-split", f"{desc} probs zero at {zeros}: splits using a zero-probability topology carry mass",
                    twin=all_(eq(jdd[jd], 1) for jd in dead) if dead else None, sig="zero-probability-topology-used")
    F = 0
    for k in rng:
        F = F + fp(k)
    mass = {}
    for jd, v in jdd.items():
        mass[deg(jd)] = mass.get(deg(jd), 0) + v
    law_ok = ctx.require(all_(eq(mass[k] * F, fp(k)) for k in rng), "overall-law", f"{desc}: total mass per overall degree is not fp(k)/sum fp",
                         twin=all_(eq(mass[k] * F, fp(k) * 2) for k in rng), logic="QF_NRA")

    def w(jd):
        p = 1
        for i, x in enumerate(jd):
            p = p * probs[i] ** ((i + 1) * x)
        return p

    conds = []
    for k in rng:
        if kind == "split" or k == target:
            sp = splits(k, T)
            Wk = 0
            for jd in sp:
                Wk = Wk + w(jd)
            conds.extend(eq(jdd[jd] * Wk, mass[k] * w(jd)) for jd in sp)
    if conds:
        ctx.require(all_(conds), "within-degree-split", f"{desc}: mass inside one degree is not split in proportion to prod p_i^((i+1) jd_i)",
                    twin=all_(conds[:-1] + [eq(jdd[sp[-1]] * Wk, mass[rng[-1] if kind == 'split' else target] * w(sp[-1]) * 2)]) if T > 1 or True else None,
                    logic="QF_NRA")
    tot = 0
    for v in jdd.values():
        tot = tot + v

    def by_lemma():
        # abstraction: masses m_k with the discharged lemma m_k * F = fp(k), F = sum fp > 0  |-  sum m_k = 1
        import z3

        if not law_ok or ctx.mode != "sym":
            return "unknown"
        m = {k: z3.Real(f"mass_{k}") for k in rng}
        f = {k: z3.Real(f"fpv_{k}") for k in rng}
        Fv = z3.Real("Fv")
        hyps = [m[k] * Fv == f[k] for k in rng] + [f[k] > 0 for k in rng] + [Fv == sum(f.values())]
        return ctx.entails(hyps, sum(m.values()) == 1)

    ctx.require(eq(tot, 1), "sums-to-one", f"{desc}: distribution does not sum to 1", twin=eq(tot, 2), logic="QF_NRA", fallback=by_lemma, timeout=8000)
    ctx.observe("jdd", sorted((list(k), v) for k, v in jdd.items()))
