"""C01 - generated graphs realise exactly the requested joint degree sequence, for every resolution
of the random shuffles (the shuffle is a symbolic permutation: one path covers all n! outcomes)."""
from harness import gen_common as gc
from symx.core import all_, count_eq, eq

PROPERTY = "C01"
FUNCTIONS = ["gcmpy.gcm_algorithm.gcm_algorithm_fast.GCMAlgorithmFast.random_clustered_graph",
             "gcmpy.gcm_algorithm.gcm_algorithm_custom_motifs.GCMAlgorithmCustomMotifs.random_clustered_graph",
             "GCMAlgorithmCustomMotifs.partition", "gcmpy.gcm_algorithm.gcm_algorithm_network.GCMAlgorithmNetwork.random_clustered_graph",
             "gcmpy.gcm_algorithm.gcm_algorithm_main.GCMAlgorithmMain.load_gcm_algorithm",
             "gcmpy.gcm_algorithm.gcm_algorithm_factory.GCMAlgorithmFactory.resolve_algorithm",
             "gcmpy.motif_generators.clique_motif", "cycle_motif", "diamond_motif", "iteration_utilities.grouper (real C extension)"]
STUBS = ["random.shuffle -> fresh symbolic permutation (Distinct ints); slots are If-chains over it, no fork for the edge-list generators"]
BOUNDS = {
    "quick": "N<=3 vertices, entries 0..2, 1-3 joint-degree columns (N=4 with entries 0..1 for 4-vertex motifs); 11 fast/network motif "
             "configurations (incl. topologies with equal edge counts) and 13 custom-motif configurations (bare edge with bare / tuple name, 2-edge "
             "path, triangle, 2-orbit hub, multi-orbit motif followed by another motif, orbits out of column order, diamond with per-edge names, "
             "mixtures); direct construction and the factory with enum and string type; network variant N<=3; a second call on the same "
             "generator object with an independent sequence",
    "thorough": "N<=4 with entries 0..2 and N=5 with entries 0..2 for single-column configurations; network variant N<=4 entries 0..1",
}
OUTSIDE = "N>5, entries >3, more than 3 joint-degree columns; joint degree sequences violating the handshake precondition"
ASSUMPTIONS = ["the handshake precondition (column sums divisible by motif sizes, equal motif counts across the orbits of one motif) is "
               "assumed as a solver constraint on the symbolic sequence",
               "random.shuffle produces a permutation of its argument in place (every permutation is covered)"]
EXPECTED_LABELS = ["call-count", "call-arity", "slots-per-vertex", "slots-in-range", "edges-are-callback-returns", "jds-carried"]
VALIDATE_EVERY = 15


def configs(tier):
    q = tier == "quick"
    cfgs = []

    def add(alg, motif, N, D, via="direct", history=False):
        cfgs.append({"name": f"{alg}-{motif}-N{N}D{D}-{via}" + ("-2ndcall" if history else ""), "alg": alg, "motif": motif, "N": N, "D": D, "via": via,
                     "history": history})

    for motif in ("k2", "k2k3", "k3", "c3k2", "star3k2", "one"):
        add("fast", motif, 3, 2)
    add("fast", "c4", 4, 1)
    add("fast", "diamond", 4, 1)
    add("fast", "diamond", 2, 2)
    add("fast", "k2k3", 3, 2, "enum")
    add("fast", "k2", 3, 2, "str")
    for motif in ("bare", "path2", "tri", "hub2", "bare+tri", "edge1"):
        add("motifs", motif, 3, 2)
    add("motifs", "bare+hub2", 3, 1)
    add("motifs", "diamond5", 4, 1)
    add("motifs", "hub2", 3, 2, "enum")
    add("motifs", "bare", 3, 2, "str")
    add("fast", "k3c3", 3, 1)
    add("fast", "k2k2", 3, 1)
    add("fast", "k2k3k2", 2, 2)
    for motif in ("bare-t", "hub2+tri", "hub2+bare", "tri+tri2", "hub2-rev+bare", "tri-gen", "path2-repeat"):
        add("motifs", motif, 3, 1)
    add("motifs", "hub2+tri", 2, 3)
    add("motifs", "arc", 3, 2)
    add("motifs", "arc+bare", 3, 1)
    add("fast", "k3simple+k2", 3, 2)
    add("fast", "k3simple", 4, 2)  # two motif instances with different numbers of edges occur here
    # larger fixed sequences (magnitude-dependent arithmetic): 15 triangle stubs on 11 vertices, 22 edge stubs on 12, 33 on 23
    for motif, dcol in (("k3", [2, 2, 2, 2, 1, 1, 1, 1, 1, 1, 1]), ("k2", [3, 3, 2, 2, 2, 2, 2, 2, 1, 1, 1, 1]), ("k3", [3] * 5 + [1] * 18)):
        cfgs.append({"name": f"fast-{motif}-N{len(dcol)}-fixed-sum{sum(dcol)}", "alg": "fast", "motif": motif, "N": len(dcol), "D": max(dcol), "via": "direct",
                     "history": False, "fixed_d": [[x] for x in dcol]})
    # a second call on the same generator object (state carried between calls)
    add("fast", "k2", 3, 2, history=True)
    add("fast", "k2k3", 3, 1, "enum", history=True)
    add("motifs", "hub2", 3, 1, history=True)
    add("motifs", "bare", 3, 2, history=True)
    add("network", "k2", 3, 1, history=True)
    add("network", "k2", 3, 2)
    add("network", "k3", 3, 1)
    add("network", "k2", 3, 1, "str")
    add("network", "k2k3", 3, 1, "enum")
    if not q:
        for motif in ("k2", "k2k3", "k3", "c3k2", "star3k2"):
            add("fast", motif, 4, 2)
        add("fast", "k2", 5, 2)
        add("fast", "k3", 5, 2)
        add("fast", "diamond", 5, 2)
        add("fast", "c4", 5, 1)
        for motif in ("bare", "path2", "tri", "hub2", "bare+tri"):
            add("motifs", motif, 4, 2)
        add("motifs", "bare+hub2", 4, 1)
        add("motifs", "diamond5", 4, 2)
        add("motifs", "bare", 5, 2)
        add("network", "k2", 4, 1)
        add("network", "k2k3", 4, 1)
    return cfgs


def path(ctx, cfg):
    r = ctx.guard("generator-raised", gc.run_generator, ctx, cfg)
    spec, N = r.spec, r.N
    desc = f"{cfg['alg']}/{cfg['motif']} jds={r.d}"
    ctx.require(r.cls_ok, "factory-dispatch", f"{desc}: factory returned {type(r.gen).__name__}")
    wrong = gc.provenance_ok(r)
    if wrong is not None:
        ctx.require(not wrong, "call-arity", lambda: f"{desc}: stubs of one topology were handed to another topology's build callback: {wrong}",
                    sig="callback-of-another-topology")
    # (a) number of build calls per motif type, (b) arity of every call
    for j in range(len(spec["builds"])):
        n = sum(1 for c in r.calls if c["j"] == j)
        want = gc.expected_calls(r, j)
        ctx.require(n == want, "call-count", f"{desc}: motif type {j} built {n} times, expected {want}", twin=(n == want + 1))
        arity = sum(spec["sizes"][k] for k in spec["indices"][j])
        bad = [len(c["args"]) for c in r.calls if c["j"] == j and len(c["args"]) != arity]
        ctx.require(not bad, "call-arity", f"{desc}: motif type {j} received {bad} stubs instead of {arity}")
    # (b') what a callback was handed stays what it was handed: a callback may keep its argument (e.g. return it as a hyper-edge), so the
    # generator must neither change that object afterwards nor hand the same object to another call
    kept = [c for c in r.calls if isinstance(c.get("obj"), list)]
    same = all(len(c["obj"]) == len(c["args"]) and all(a is b for a, b in zip(c["obj"], c["args"])) for c in kept)
    distinct = len({id(c["obj"]) for c in kept}) == len(kept)
    ctx.require(same and distinct, "call-arity",
                lambda: f"{desc}: a list handed to a build callback was modified after the call or shared between calls: "
                        f"{[(c['args'], list(c['obj'])) for c in kept][:4]}", sig="callback-argument-not-stable")
    # (c) every vertex occupies exactly jds[v][k] slots of column k, for every permutation; (d) slots are vertices 0..N-1
    for k in range(len(spec["sizes"])):
        slots = gc.column_slots(r, k)
        if cfg.get("fixed_d"):
            # long stub lists: instead of the counting query, the slots must be - object by object - the elements of the shuffled canonical
            # stub list of this column, each exactly once (a permutation of the canonical list gives every vertex its degree)
            recs = [x for x in r.shuffles if x["n"] == len(slots)]
            canon = sorted(v for v in range(N) for _ in range(r.d[v][k]))
            ok = len(recs) >= 1 and any(sorted(int(y) for y in x["orig"]) == canon and sorted(map(id, x["result"])) == sorted(map(id, slots)) for x in recs)
            ctx.require(ok, "slots-per-vertex", lambda k=k, slots=slots: f"{desc}: column {k}: the {len(slots)} slots are not exactly the {len(canon)} shuffled stubs",
                        sig="slots-are-the-shuffled-stubs")
            continue
        conds = [eq(count_eq(slots, v), r.d[v][k]) for v in range(N)]
        tw = [eq(count_eq(slots, v), r.d[v][k] + 1) for v in range(N)]
        ctx.require(all_(conds), "slots-per-vertex",
                    lambda k=k, slots=slots: f"{desc}: column {k} slots {slots} do not give every vertex its degree", twin=all_(tw))
        ctx.require(all_([(s >= 0) for s in slots] + [(s < N) for s in slots]), "slots-in-range",
                    lambda slots=slots: f"{desc}: a slot outside 0..{N - 1} can appear: {slots}",
                    twin=all_([(s < N - 1) for s in slots]) if slots else None)
        ctx.observe(f"slots{k}", list(slots))
    # (e) what is emitted is what the callbacks returned; (f) jds carried through
    out = r.out
    if cfg["alg"] == "network":
        G = out.G
        rec = set()
        for c in r.calls:
            for e in gc.as_edges(c["ret"]):
                rec.add(frozenset((ctx.fork_int(e[0]), ctx.fork_int(e[1]))))
        got = {frozenset(e) for e in G.edges()}
        ctx.require(got == rec, "edges-are-callback-returns", f"{desc}: network edges {sorted(map(sorted, got))} vs callback returns {sorted(map(sorted, rec))}",
                    twin=(got == rec | {frozenset((N, N + 1))}))
        ok = all(G.nodes[v].get(_jdkey()) is not None and tuple(G.nodes[v].get(_jdkey())) == tuple(r.d[v]) for v in G.nodes())
        ctx.require(ok and sorted(G.nodes()) == list(range(N)), "jds-carried",
                    f"{desc}: vertices {sorted(G.nodes())} / annotations differ from the joint degree sequence")
        ctx.observe("edges", sorted(sorted(e) for e in got))
        return
    el, tops, mids, jd = gc.edge_list_of(out)
    emitted = []
    for e in el:
        emitted.append(e)
    returned = [e for c in r.calls for e in gc.as_edges(c["ret"])]
    same_len = len(emitted) == len(returned)
    ctx.require(same_len, "edges-are-callback-returns", f"{desc}: {len(emitted)} edge entries emitted, callbacks returned {len(returned)} edges",
                twin=(len(emitted) == len(returned) + 1))
    if same_len and returned:
        ctx.require(all_(gc.pair_eq(a, b) for a, b in zip(emitted, returned)), "edges-are-callback-returns",
                    f"{desc}: emitted edges differ from the callbacks' return values")
    ctx.require(jd is r.jds or list(jd) == list(r.jds_in), "jds-carried", f"{desc}: joint_degrees {jd} differs from the input",
                twin=(list(jd) == list(r.jds_in) + [None]))
    ctx.observe("edges", [list(e) if isinstance(e, (tuple, list)) else e for e in emitted])


def _jdkey():
    from gcmpy.names.network_names import NetworkNames

    return NetworkNames.JOINT_DEGREE
