"""C09 - EECC returns an edge-disjoint edge clique cover within the size bound, whichever tied
candidate the heuristic picks (adjacency bits, m0 and every tie-break are solver variables)."""
import itertools

import networkx as nx

from symx.core import any_, ite

PROPERTY = "C09"
FUNCTIONS = ["gcmpy.covers.eecc.EECC.get_EECC", "EECC.limited_maximal_cliques", "EECC.compute_scores", "EECC.set_max_clique_size",
             "gcmpy.covers.eecc.binom", "gcmpy.network.network.Network (add_edges_from, find_cliques, remove_edge, has_edges)",
             "networkx.find_cliques (real implementation)"]
STUBS = ["random.choice -> fresh bounded index; the chosen clique is looked up by index, so every distinct tie-break is a separate path"]
BOUNDS = {
    "quick": "every labelled graph without isolated vertices on 2..5 vertices x m0 in 2..6 x every tie-break sequence; every labelled 6-vertex graph at m0=2, histories on one object (cliques enumerated under another bound first) for n<=5, templates on 8 vertices (K6 plus two "
             "vertices with symbolic neighbourhoods, m0 6-7) and 9 vertices (two K4 and a triangle sharing an edge, m0 4-5), and on 6 "
             "vertices the templates 'two overlapping K4' and 'K5 plus a pendant triangle' with <= 7 free pairs at m0 in {2,3,4}",
    "thorough": "additionally every labelled graph on 6 vertices with m0 in {3,4} and the 7-vertex template 'two K4 sharing an edge' with 8 free pairs",
}
OUTSIDE = "graphs with 8+ vertices; 6-vertex graphs at m0>=4 outside the templates; 7-vertex graphs outside the template"
ASSUMPTIONS = ["the graph is simple, without isolated vertices (solver precondition), built through add_edges_from", "m0 >= 2"]
EXPECTED_LABELS = ["elements-are-cliques-within-bound", "every-edge-exactly-once", "working-graph-empty", "isolated-maximal-cliques-intact"]
VALIDATE_EVERY = 400
TIME_LIMIT = {"quick": 900, "thorough": 5400}


def configs(tier):
    q = tier == "quick"
    cfgs = []
    for n in range(2, 6):
        for m0 in range(2, 7):
            if m0 > n + 1:
                continue
            cfgs.append({"name": f"all-n{n}-m0_{m0}", "n": n, "m0": m0, "fixed": [], "free": "all"})
    # histories on one object: maximal cliques enumerated under another bound before the cover is computed
    for n in (4, 5):
        for m0 in (2, 3):
            cfgs.append({"name": f"history-n{n}-m0_{m0}", "n": n, "m0": m0, "fixed": [], "free": "all", "history": True})
    # the same graphs fed differently: edges added in reverse order and reversed orientation, vertex labels with gaps, another EECC
    # object used before (state shared between objects would leak)
    for m0 in (2, 3):
        cfgs.append({"name": f"all-n5-m0_{m0}-reversed-insertion", "n": 5, "m0": m0, "fixed": [], "free": "all", "variant": "rev"})
        cfgs.append({"name": f"all-n5-m0_{m0}-gapped-labels", "n": 5, "m0": m0, "fixed": [], "free": "all", "variant": "gap"})
        cfgs.append({"name": f"all-n4-m0_{m0}-after-another-object", "n": 4, "m0": m0, "fixed": [], "free": "all", "variant": "warm"})
    # 7-vertex templates: a fixed ring of triangles plus symbolic chords (sparse graphs with many overlapping triangles)
    ring7 = [(0, 3), (0, 6), (1, 3), (1, 4), (2, 3), (2, 4), (3, 4), (3, 6), (4, 5), (4, 6), (5, 6)]
    for m0 in (3,) if q else (3, 4):
        cfgs.append({"name": f"n7-triangle-ring-m0_{m0}", "n": 7, "m0": m0, "fixed": ring7[:7], "free": ring7[7:] + [(0, 1), (1, 2), (2, 5), (0, 4)] + ([] if q else [(1, 6), (2, 6)])})
    if not q:
        cfgs.append({"name": "all-n7-e11-m0_3", "n": 7, "m0": 3, "fixed": [], "free": "all", "edges_exact": 11})
    # larger graphs as templates: a fixed dense part plus a few symbolic pairs
    k6 = [(a, b) for a in range(6) for b in range(a + 1, 6)]
    free6 = [(0, 6), (2, 6), (3, 6), (4, 6)] + [(1, 7), (2, 7), (3, 7), (4, 7), (5, 7)]
    for m0 in (6, 7) if q else (4, 5, 6, 7):
        cfgs.append({"name": f"n8-K6plus2-m0_{m0}", "n": 8, "m0": m0, "fixed": k6, "free": free6 if q else free6 + [(1, 6), (5, 6), (0, 7), (6, 7)]})
    two_k4_tri = [(1, 2), (1, 3), (1, 4), (2, 3), (2, 4), (3, 4), (5, 6), (5, 7), (5, 8), (6, 7), (6, 8), (7, 8), (1, 0), (2, 0)]
    for m0 in (4, 5):
        cfgs.append({"name": f"n9-twoK4+triangle-m0_{m0}", "n": 9, "m0": m0, "fixed": two_k4_tri,
                     "free": [(3, 0), (4, 5), (2, 5), (0, 5), (4, 8), (0, 8)] + ([] if q else [(1, 5), (3, 6), (0, 6)])})
    k4a = [(0, 1), (0, 2), (0, 3), (1, 2), (1, 3), (2, 3)]
    k4b = [(2, 3), (2, 4), (2, 5), (3, 4), (3, 5), (4, 5)]
    k5 = [(a, b) for a in range(5) for b in range(a + 1, 5)]
    for m0 in (2, 3, 4):
        cfgs.append({"name": f"n6-twoK4-m0_{m0}", "n": 6, "m0": m0, "fixed": sorted(set(k4a + k4b)), "free": [(0, 4), (0, 5), (1, 4), (1, 5)] if q else "rest"})
        cfgs.append({"name": f"n6-K5tri-m0_{m0}", "n": 6, "m0": m0, "fixed": k5, "free": "rest"})
    cfgs.append({"name": "all-n6-m0_2", "n": 6, "m0": 2, "fixed": [], "free": "all"})
    if not q:
        for m0 in (3, 4):
            cfgs.append({"name": f"all-n6-m0_{m0}", "n": 6, "m0": m0, "fixed": [], "free": "all"})
        k4c = [(2, 3), (2, 5), (2, 6), (3, 5), (3, 6), (5, 6)]
        for m0 in (2, 3, 4):
            cfgs.append({"name": f"n7-twoK4edge-m0_{m0}", "n": 7, "m0": m0, "fixed": sorted(set(k4a + k4c)),
                         "free": [(0, 4), (1, 4), (4, 5), (4, 6), (0, 5), (1, 6), (3, 4), (2, 4)]})
    return cfgs


def fork_graph(ctx, cfg):
    n = cfg["n"]
    pairs = list(itertools.combinations(range(n), 2))
    fixed = {tuple(p) for p in cfg["fixed"]}
    if cfg["free"] in ("all", "rest"):
        free = [p for p in pairs if p not in fixed]
    else:
        free = [tuple(p) for p in cfg["free"]]
    bits = {p: ctx.bool(f"adj{p[0]}_{p[1]}") for p in free}
    for v in range(n):
        if not any(v in p for p in fixed):
            ctx.assume(any_(b for p, b in bits.items() if v in p))
    if cfg.get("edges_exact"):
        cnt = 0
        for b in bits.values():
            cnt = cnt + ite(b, 1, 0)
        ctx.assume(cnt == cfg["edges_exact"] - len(fixed))
    edges = sorted(fixed) + [p for p in free if ctx.fork_bool(bits[p])]
    return sorted(edges)


def path(ctx, cfg):
    from gcmpy.covers.eecc import EECC

    n, m0 = cfg["n"], cfg["m0"]
    edges = fork_graph(ctx, cfg)
    desc = f"edges={edges} m0={m0}"
    variant = cfg.get("variant")
    if variant == "warm":
        other = EECC()
        other.add_edges_from([(0, 1), (0, 2), (1, 2), (2, 3), (3, 4), (2, 4), (1, 3)])
        other.set_max_clique_size(3 if m0 == 2 else 2)
        ctx.guard("eecc-raised", other.get_EECC)
    if variant == "gap":
        edges = [(3 * a + 2, 3 * b + 2) for a, b in edges]
    ec = EECC()
    if variant == "rev":
        ec.add_edges_from([(b, a) for a, b in reversed(edges)])
    else:
        ec.add_edges_from(list(edges))
    desc = f"edges={edges} m0={m0}" + (f" [{variant}]" if variant else "")
    if cfg.get("history"):
        m1 = ctx.fork_int(ctx.int("first_bound", 2, 5))
        ctx.assume(m1 != m0)
        ec.set_max_clique_size(m1)
        ctx.guard("eecc-raised", ec.limited_maximal_cliques)
        desc += f" (after limited_maximal_cliques() under bound {m1} on the same object)"
    ec.set_max_clique_size(m0)
    cover = ctx.guard("eecc-raised", ec.get_EECC)
    cover = [[ctx.fork_int(v) for v in c] for c in cover]
    E = {frozenset(e) for e in edges}
    bad = [c for c in cover if not (2 <= len(c) <= m0) or len(set(c)) != len(c) or any(frozenset(p) not in E for p in itertools.combinations(c, 2))]
    ctx.require(not bad, "elements-are-cliques-within-bound", lambda: f"{desc}: cover {cover} contains {bad}", twin=bool(bad) or None, sig="elements-are-cliques-within-bound")
    count = {}
    for c in cover:
        for p in itertools.combinations(sorted(set(c)), 2):
            count[frozenset(p)] = count.get(frozenset(p), 0) + 1
    twice = sorted(tuple(sorted(e)) for e, k in count.items() if k > 1)
    missing = sorted(tuple(sorted(e)) for e in E if e not in count)
    ctx.require(not twice and not missing, "every-edge-exactly-once", lambda: f"{desc}: cover {cover}: covered twice {twice}, uncovered {missing}",
                twin=(len(count) == len(E) + 1), sig="every-edge-exactly-once:" + ("twice" if twice else "missing"))
    ctx.require(not ec.has_edges(), "working-graph-empty", f"{desc}: working graph still has edges {list(ec.G.edges())}", twin=ec.has_edges())
    G = nx.Graph()
    G.add_edges_from(edges)
    maxcl = [sorted(c) for c in nx.find_cliques(G)]
    lonely = []
    for c in maxcl:
        if len(c) > m0 or len(c) < 2:
            continue
        ce = {frozenset(p) for p in itertools.combinations(c, 2)}
        if not any(ce & {frozenset(p) for p in itertools.combinations(o, 2)} for o in maxcl if o != c):
            lonely.append(c)
    got = {tuple(sorted(c)) for c in cover}
    lost = [c for c in lonely if tuple(c) not in got]
    ctx.require(not lost, "isolated-maximal-cliques-intact", lambda: f"{desc}: maximal cliques {lost} share no edge with another maximal clique but are not in {cover}",
                twin=(bool(lost) if lonely else None))
    ctx.observe("cover", sorted(sorted(c) for c in cover))
