"""C04 - edge list <-> network conversion loses nothing.  Vertex ids are forked (networkx hashes
them); topology names, motif ids and joint-degree entries stay symbolic payload on every path."""
from symx.core import all_, eq

PROPERTY = "C04"
FUNCTIONS = ["gcmpy.network.edge_list_to_network.EdgeListToNetwork.convert", "gcmpy.network.network_to_edge_list.NetworkToEdgeList.convert",
             "gcmpy.network.network.Network", "gcmpy.network.edge_list.LightWeightEdgeList"]
STUBS = []
BOUNDS = {
    "quick": "N<=3 vertices, 0..3 edge entries with both end points symbolic in 0..N-1 (self-loops, repeated and reversed pairs included), "
             "1-2 joint-degree columns; names, ids and joint-degree entries are unconstrained symbolic payload",
    "thorough": "N<=4 vertices, 0..4 edge entries",
}
OUTSIDE = "N>4, more than 4 entries; attributes of pairs that occur more than once (the property only constrains pairs occurring once)"
ASSUMPTIONS = ["topology names are opaque payload: they are modelled by symbolic integer tokens (the converters only store and copy them)"]
EXPECTED_LABELS = ["nodes", "node-annotation", "edges-iff-pairs", "edge-attributes", "reverse-jds", "reverse-edges", "round-trip-network"]
VALIDATE_EVERY = 40


def configs(tier):
    if tier == "quick":
        return [{"name": f"N{N}-E3-C{C}", "N": N, "E": 3, "C": C} for N, C in ((1, 1), (2, 2), (3, 1), (3, 2))]
    return [{"name": f"N{N}-E{E}-C{C}", "N": N, "E": E, "C": C} for N, E, C in ((2, 4, 2), (3, 4, 1), (4, 4, 1), (4, 3, 2))]


def path(ctx, cfg):
    from gcmpy.names.network_names import NetworkNames as NN
    from gcmpy.network.edge_list import LightWeightEdgeList
    from gcmpy.network.edge_list_to_network import EdgeListToNetwork
    from gcmpy.network.network_to_edge_list import NetworkToEdgeList

    N, C = cfg["N"], cfg["C"]
    E = ctx.fork_int(ctx.int("E", 0, cfg["E"]))
    jds = [tuple(ctx.int(f"jd{v}_{c}", 0, 9) for c in range(C)) for v in range(N)]
    ends = [(ctx.int(f"a{i}", 0, N - 1), ctx.int(f"b{i}", 0, N - 1)) for i in range(E)]
    names = [ctx.int(f"name{i}") for i in range(E)]
    ids = [ctx.int(f"mid{i}") for i in range(E)]
    el = LightWeightEdgeList()
    el.edge_list = [(a, b) for a, b in ends]
    el.topologies = list(names)
    el.motif_id = list(ids)
    el.joint_degrees = list(jds)
    # warm-up: another edge list is converted (both ways) first; nothing of it may survive into the conversion under test
    w = LightWeightEdgeList()
    w.edge_list = [(0, 1), (1, 2), (0, 2), (2, 3)]
    w.topologies = ["w", "w", "w", "x"]
    w.motif_id = [90, 90, 90, 91]
    w.joint_degrees = [(5, 5)[:C], (6, 6)[:C], (7, 7)[:C], (8, 8)[:C]]
    ctx.guard("convert-raised", NetworkToEdgeList.convert, ctx.guard("convert-raised", EdgeListToNetwork.convert, w))
    net = ctx.guard("convert-raised", EdgeListToNetwork.convert, el)
    G = net.G
    pairs = [(ctx.fork_int(a), ctx.fork_int(b)) for a, b in ends]  # concrete by now (hashed by networkx)
    desc = f"N={N} edge entries={pairs}"
    ctx.require(sorted(G.nodes()) == list(range(N)), "nodes", f"{desc}: network has vertices {sorted(G.nodes())}, expected 0..{N - 1}",
                twin=(sorted(G.nodes()) == list(range(N + 1))), sig="nodes")
    conds = []
    for v in G.nodes():
        jd = G.nodes[v].get(NN.JOINT_DEGREE)
        ok = jd is not None and len(jd) == C
        conds.append(all_(eq(jd[c], jds[v][c]) for c in range(C)) if ok and v < N else False)
    ctx.require(all_(conds), "node-annotation", f"{desc}: vertex annotations differ from the joint degree sequence",
                twin=all_(eq(G.nodes[v].get(NN.JOINT_DEGREE, (0,))[0], jds[(v + 1) % N][0]) for v in G.nodes() if v < N) if N > 1 else None)
    want = {frozenset(p) for p in pairs}
    got = {frozenset(e) for e in G.edges()}
    ctx.require(got == want, "edges-iff-pairs", f"{desc}: network edges {sorted(map(sorted, got))}", twin=(got == want | {frozenset((N, N + 1))}))
    occ = {}
    for i, p in enumerate(pairs):
        occ.setdefault(frozenset(p), []).append(i)
    once = {k: v[0] for k, v in occ.items() if len(v) == 1}
    for key, i in once.items():
        u, v = pairs[i]
        if not G.has_edge(u, v):
            continue
        d = G.edges[u, v]
        ctx.require(all_([eq(d.get(NN.TOPOLOGY, -1), names[i]), eq(d.get(NN.MOTIF_IDS, -1), ids[i])]), "edge-attributes",
                    f"{desc}: edge {pairs[i]} does not carry its own topology name / motif id",
                    twin=all_([eq(d.get(NN.TOPOLOGY, -1), ids[i])]), sig="edge-attributes")
    # reverse conversion
    back = ctx.guard("reverse-raised", NetworkToEdgeList.convert, net)
    okj = len(back.joint_degrees) == N and all(len(back.joint_degrees[v]) == C for v in range(N))
    ctx.require(all_(eq(back.joint_degrees[v][c], jds[v][c]) for v in range(N) for c in range(C)) if okj else False, "reverse-jds",
                f"{desc}: reverse conversion returns joint degrees {back.joint_degrees}", twin=(not okj))
    cols = len(back.edge_list) == len(back.topologies) == len(back.motif_id)
    bp = [frozenset((ctx.fork_int(a), ctx.fork_int(b))) for a, b in back.edge_list]
    ctx.require(cols and sorted(map(sorted, bp)) == sorted(map(sorted, want)), "reverse-edges",
                f"{desc}: reverse conversion returns edges {back.edge_list}", twin=(len(bp) == len(want) + 1))
    if cols:
        for key, i in once.items():
            js = [j for j, p in enumerate(bp) if p == key]
            if len(js) == 1:
                j = js[0]
                ctx.require(all_([eq(back.topologies[j], names[i]), eq(back.motif_id[j], ids[i])]), "reverse-edges",
                            f"{desc}: after the round trip edge {pairs[i]} lost its name / id", twin=eq(back.topologies[j], ids[i]))
    # network -> edge list -> network is the identity
    net2 = ctx.guard("convert-raised", EdgeListToNetwork.convert, back)
    G2 = net2.G
    same = sorted(G2.nodes()) == sorted(G.nodes()) and {frozenset(e) for e in G2.edges()} == got
    conds = [same]
    if same:
        for v in G.nodes():
            a, b = G.nodes[v].get(NN.JOINT_DEGREE), G2.nodes[v].get(NN.JOINT_DEGREE)
            conds.append(all_(eq(x, y) for x, y in zip(a, b)) if a is not None and b is not None and len(a) == len(b) else a is b)
        for u, v in G.edges():
            d, d2 = G.edges[u, v], G2.edges[u, v]
            conds.append(eq(d.get(NN.TOPOLOGY, -1), d2.get(NN.TOPOLOGY, -2)))
            conds.append(eq(d.get(NN.MOTIF_IDS, -1), d2.get(NN.MOTIF_IDS, -2)))
    ctx.require(all_(conds), "round-trip-network", f"{desc}: network -> edge list -> network is not the identity")
    ctx.observe("net", [sorted(G.nodes()), sorted(sorted(e) for e in got)])
    ctx.observe("attrs", [[G.edges[u, v].get(NN.TOPOLOGY), G.edges[u, v].get(NN.MOTIF_IDS)] for u, v in sorted(G.edges())])
