"""C02 - edge list columns stay parallel and motif identities are well formed (every RNG outcome)."""
from harness import gen_common as gc
from harness.c01_generators import configs as c01_configs
from symx.core import all_

PROPERTY = "C02"
FUNCTIONS = ["gcmpy.gcm_algorithm.gcm_algorithm_fast.GCMAlgorithmFast.random_clustered_graph",
             "gcmpy.gcm_algorithm.gcm_algorithm_custom_motifs.GCMAlgorithmCustomMotifs.random_clustered_graph",
             "gcmpy.gcm_algorithm.gcm_algorithm.GCMAlgorithm.infinite_sequence", "gcmpy.network.edge_list.LightWeightEdgeList"]
STUBS = ["random.shuffle -> fresh symbolic permutation"]
BOUNDS = {
    "quick": "same exploration as C01-quick without the network variant: N<=3 (4 for 4-vertex motifs), entries 0..2, motif shapes with "
             "0 edges, 1 edge (bare and listed), exactly 2 edges (single- and two-orbit), 3, 4, 5, 6 edges, homogeneous and per-edge names",
    "thorough": "same exploration as C01-thorough (N<=5)",
}
OUTSIDE = "N>5; naming callbacks whose length differs from the number of edges (caller error)"
ASSUMPTIONS = ["custom-motif callbacks follow the repository's own fixture: a build callback returns a sequence of (u,v) pairs or one bare "
               "(u,v) pair, and the naming callback returns the matching sequence of names or one bare name"]
EXPECTED_LABELS = ["columns-parallel", "entries-are-pairs", "ids-group-callback-returns", "names"]
VALIDATE_EVERY = 15


def configs(tier):
    return [c for c in c01_configs(tier) if c["alg"] != "network"]


def path(ctx, cfg):
    r = ctx.guard("generator-raised", gc.run_generator, ctx, cfg)
    spec = r.spec
    desc = f"{cfg['alg']}/{cfg['motif']} jds={r.d}"
    el, tops, mids, _ = gc.edge_list_of(r.out)
    wrong = gc.provenance_ok(r)
    if wrong is not None:
        ctx.require(not wrong, "names", lambda: f"{desc}: stubs of one topology were handed to another topology's build callback (call, motif type, columns): {wrong}",
                    sig="names:callback-of-another-topology")
    show = lambda: f"{desc}: edge_list={el} topologies={tops} motif_id={mids}"
    ctx.require(len(el) == len(tops) == len(mids), "columns-parallel", show,
                twin=(len(el) + 1 == len(tops) == len(mids)), sig="columns-parallel")
    pairs_ok = all(isinstance(e, (tuple, list)) and len(e) == 2 and gc.is_vertex(e[0]) and gc.is_vertex(e[1]) for e in el)
    ctx.require(pairs_ok, "entries-are-pairs", show, twin=(not pairs_ok) if el else None, sig="entries-are-pairs")
    ids_ok = all(isinstance(i, int) for i in mids)
    ctx.require(ids_ok, "ids-group-callback-returns", show)
    if not (len(el) == len(tops) == len(mids) and pairs_ok and ids_ok):
        return
    # group the rows by motif id, in order of first appearance
    order, groups = [], {}
    for e, t, i in zip(el, tops, mids):
        if i not in groups:
            groups[i] = []
            order.append(i)
        groups[i].append((e, t))
    calls = [c for c in r.calls if len(gc.as_edges(c["ret"])) > 0]
    ctx.require(len(order) == len(calls), "ids-group-callback-returns",
                lambda: f"{desc}: {len(order)} distinct motif ids for {len(calls)} motif instances; {show()}", twin=(len(order) == len(calls) + 1))
    if len(order) != len(calls):
        return
    name_calls = list(r.name_calls)
    for gi, (i, c) in enumerate(zip(order, calls)):
        rows = groups[i]
        edges = gc.as_edges(c["ret"])
        ok_len = len(rows) == len(edges)
        ctx.require(ok_len, "ids-group-callback-returns",
                    lambda: f"{desc}: motif id {i} labels {len(rows)} rows but its build call returned {len(edges)} edges", sig="ids-group-callback-returns")
        if not ok_len:
            continue
        ctx.require(all_(gc.pair_eq(row[0], e) for row, e in zip(rows, edges)), "ids-group-callback-returns",
                    lambda: f"{desc}: rows of motif id {i} are not the edges its build call returned")
        # names
        if spec["kind"] == "fast":
            want = [spec["names"][c["j"]]] * len(edges)
        else:
            raw = spec["names"][c["j"]]()
            want = [raw] if isinstance(raw, str) else list(raw)  # a fresh call of the naming callback (it may return a one-shot iterator)
        got = [row[1] for row in rows]
        ctx.require(got == want, "names", lambda: f"{desc}: motif id {i} carries names {got}, expected {want}",
                    twin=(got == want + ["x"]), sig="names")
    ctx.observe("columns", [[list(e) for e in el], list(tops), list(mids)])
