"""C08 - joint degrees derived from a clique cover count cliques per vertex (cover forked by the solver)."""
from symx.core import all_, any_, close

PROPERTY = "C08"
FUNCTIONS = ["gcmpy.joint_degree.joint_degree_loaders.joint_degree_cover.JointDegreeCover.__init__", "JointDegreeCover.create_jdd",
             "gcmpy.joint_degree.joint_degree.JointDegree.convert_jds_to_jdd"]
STUBS = []
BOUNDS = {
    "quick": "every cover of 1-3 cliques of 1..4 vertices over V<=4 (1-cliques included), every cover of 1-2 cliques of 2..5 vertices over vertex ids z..z+V-1 (V<=5, z in {0,1}, every id used, members of a clique distinct), "
             "plus 3-clique covers with size patterns (2,2,4),(2,4,4),(2,5,2),(5,2,2),(3,5,2),(2,2,5),(3,3,3) over V<=6 whose first clique is z..z+s-1, plus covers made of a fixed 8- or 9-clique, a fixed triangle and one free 2-/3-clique, plus two concrete high-multiplicity covers "
             "(a hub in 300 two-cliques, a windmill of 260 triangles)",
    "thorough": "every cover of <=3 cliques over V<=5, and the size-pattern family over V<=6 with 4 cliques",
}
OUTSIDE = "covers with more than 4 cliques or cliques above 5 vertices; non-contiguous vertex ids (excluded by the property); the consequence " \
          "'sampling + generating reproduces the size profile' is covered by C05/C01 on arbitrary distributions, not re-run here. Everything is forked: " \
          "bounded exhaustive symbolic exploration, the table is concrete on each path"
ASSUMPTIONS = ["vertex ids are contiguous from 0 or 1 and every id occurs in some clique (stated precondition, imposed as solver constraint)"]
EXPECTED_LABELS = ["motif-sizes", "columns", "per-vertex-counts"]
VALIDATE_EVERY = 100
PATTERNS = [(2, 2, 4), (2, 4, 4), (2, 5, 2), (5, 2, 2), (3, 5, 2), (2, 2, 5), (3, 3, 3)]
PATTERNS4 = [(2, 2, 5, 2), (2, 4, 2, 4), (5, 2, 2, 3), (3, 5, 3, 2)]


def configs(tier):
    q = tier == "quick"
    cfgs = []
    # covers that contain 1-cliques (isolated vertices listed as their own clique)
    for V in (3, 4):
        for z in (0, 1):
            cfgs.append({"name": f"all-c3-V{V}-z{z}-with-1-cliques", "kind": "all", "C": 3, "V": V, "z": z, "min_size": 1})
    for V in range(2, 6):
        for z in (0, 1):
            cfgs.append({"name": f"all-c2-V{V}-z{z}", "kind": "all", "C": 2, "V": V, "z": z})
            if not q:
                cfgs.append({"name": f"all-c3-V{V}-z{z}", "kind": "all3", "C": 3, "V": V, "z": z})
    # large cliques: a fixed 8- or 9-clique (and a fixed triangle) plus one free 2- or 3-clique anywhere
    for big in (8, 9) if q else (8, 9, 12):
        for z in (0, 1):
            cfgs.append({"name": f"big{big}-z{z}", "kind": "big", "big": big, "V": big + 2, "z": z})
    # large multiplicities (concrete covers, no forking): a hub in 300 two-cliques, a windmill of 260 triangles
    cfgs.append({"name": "star300", "kind": "concrete", "cover": "star", "m": 300, "z": 0})
    cfgs.append({"name": "windmill260", "kind": "concrete", "cover": "windmill", "m": 260, "z": 1})
    for pat in PATTERNS + ([] if q else PATTERNS4):
        for z in (0, 1):
            cfgs.append({"name": f"pattern{pat}-z{z}", "kind": "pattern", "sizes": list(pat), "V": 6, "z": z})
    return cfgs


def fork_cover(ctx, cfg):
    V, z = cfg.get("V"), cfg["z"]
    if cfg["kind"] == "concrete":
        m = cfg["m"]
        if cfg["cover"] == "star":
            return [[z, z + i] for i in range(1, m + 1)], m + 1
        return [[z, z + 2 * i - 1, z + 2 * i] for i in range(1, m + 1)] + [[z + 1, z + 3]], 2 * m + 1
    if cfg["kind"] == "big":
        big = cfg["big"]
        fixed = [list(range(z, z + big)), [z + big - 1, z + big, z + big + 1]]
        s = ctx.fork_int(ctx.int("size_free", 2, 3))
        ms = [ctx.int(f"f{i}", z, z + V - 1) for i in range(s)]
        for a in range(s - 1):
            ctx.assume(ms[a] < ms[a + 1])
        return fixed + [[ctx.fork_int(m) for m in ms]], V
    if cfg["kind"] == "pattern":
        sizes = cfg["sizes"]
        V = ctx.fork_int(ctx.int("V", max(sizes), cfg["V"]))
    else:
        C = ctx.fork_int(ctx.int("ncliques", 1 if cfg["kind"] == "all" else 3, cfg["C"]))
        sizes = [ctx.fork_int(ctx.int(f"size{j}", cfg.get("min_size", 2), min(5, V))) for j in range(C)]
    members = []
    for j, s in enumerate(sizes):
        ms = [ctx.int(f"c{j}_{i}", z, z + V - 1) for i in range(s)]
        for a in range(s - 1):
            ctx.assume(ms[a] < ms[a + 1])  # members distinct; order inside a clique is irrelevant to the loader
        if cfg["kind"] == "pattern" and j == 0:
            for i, m in enumerate(ms):
                ctx.assume(m == z + i)
        members.append(ms)
    for v in range(z, z + V):
        ctx.assume(any_(m == v for ms in members for m in ms))
    return [[ctx.fork_int(m) for m in ms] for ms in members], V


def path(ctx, cfg):
    from gcmpy.joint_degree.joint_degree_loaders.joint_degree_cover import JointDegreeCover
    from gcmpy.names.joint_degree_names import JointDegreeNames as JN

    cover, V = fork_cover(ctx, cfg)
    z = cfg["z"]
    desc = f"cover={cover}"
    if cfg["kind"] == "all" and V <= 4 and ctx.fork_bool(ctx.bool("via_setter")):
        # the loader object first holds another cover; the cover under test arrives through the public setter + create_jdd()
        obj = ctx.guard("loader-raised", JointDegreeCover, {JN.COVER: [[z, z + 1, z + 2, z + 3, z + 4], [z + 4, z + 5]]})
        obj.cover = [list(c) for c in cover]
        ctx.guard("loader-raised", obj.create_jdd)
        desc += " (given to a loader that held another cover before)"
        second = True
    else:
        obj = ctx.guard("loader-raised", JointDegreeCover, {JN.COVER: [list(c) for c in cover]})
        second = False
    sizes = sorted({len(c) for c in cover})
    if not second:  # motif_sizes is computed in the constructor only; after the setter it describes the earlier cover (not part of the claim)
        ctx.require(list(obj.motif_sizes) == sizes, "motif-sizes", f"{desc}: motif_sizes={obj.motif_sizes}, expected {sizes}", twin=(list(obj.motif_sizes) == sizes + [9]))
    rows = {}
    for v in range(z, z + V):
        rows[v] = tuple(sum(1 for c in cover if len(c) == s and v in c) for s in sizes)
    cnt = {}
    for t in rows.values():
        cnt[t] = cnt.get(t, 0) + 1
    jdd = obj.jdd
    cols_ok = isinstance(jdd, dict) and all(isinstance(k, tuple) and len(k) == len(sizes) for k in jdd)
    ctx.require(cols_ok, "columns", lambda: f"{desc}: keys {sorted(jdd)} do not have one column per occurring size {sizes}", twin=(not cols_ok), sig="columns")
    ok = cols_ok and set(jdd) == set(cnt) and all(close(jdd[t] * V, cnt[t]) for t in cnt)
    ctx.require(ok, "per-vertex-counts", lambda: f"{desc}: distribution {jdd}, expected counts {cnt} over {V} vertices",
                twin=(cols_ok and set(jdd) == set(cnt) and all(close(jdd[t] * V, cnt[t] + 1) for t in cnt)), sig="per-vertex-counts")
    ctx.observe("jdd", sorted((list(k) if isinstance(k, tuple) else k, v) for k, v in jdd.items()) if isinstance(jdd, dict) else None)
    if cfg["kind"] in ("pattern", "big") and ok and not second:
        # the consequence clause: a sample of N=1 from the loader is padded to multiples of the reported (possibly non-adjacent) sizes,
        # with fewer than size_k added stubs per column
        draw = ctx.guard("sampling-raised", obj.sample_jds_from_jdd, 1)
        rec = [c for c in ctx.rng_log if c["fn"] == "choices"]
        if len(rec) == 1 and len(draw) == 1 and len(draw[0]) == len(sizes):
            base = rec[0]["result"][0]
            conds = []
            for k, sz in enumerate(sizes):
                conds.append(draw[0][k] % sz == 0)
                conds.append(draw[0][k] - base[k] >= 0)
                conds.append(draw[0][k] - base[k] < sz)
            ctx.require(all_(conds), "sample-respects-reported-sizes", lambda: f"{desc}: drawn {base} -> {draw[0]} for reported sizes {sizes}", sig="sample-respects-reported-sizes")

