"""C18 - bond_percolate keeps each edge independently with probability phi and reports the largest
component fraction of the kept subgraph; the input graph is left untouched."""
import itertools

import networkx as nx

from symx.core import all_, eq, implies

PROPERTY = "C18"
FUNCTIONS = ["gcmpy.tools.bond_percolate.bond_percolate"]
STUBS = ["random.random() -> fresh real r in [0,1), one per call (uniformity/independence of the draws is trusted)"]
BOUNDS = {
    "quick": "every graph with 1..4 vertices (isolated vertices and disconnected graphs included), stars with <=5 leaves, two 9-vertex graphs, "
             "three multigraphs; phi symbolic in (0,1) plus phi fixed to 0 and to 1; one symbolic draw per bond; on ONE path the function is "
             "called once for each of the 2^|E| above/below-phi patterns of the draws (the draws stay symbolic inside their region), and the "
             "table of results must be explained by some one-to-one assignment of draws to bonds (any order in which the bonds are visited)",
    "thorough": "additionally every 5-vertex graph with <= 7 edges",
}
OUTSIDE = "graphs with more than 5 vertices / 8 edges; the measure-zero boundary r_e = phi; re-implementations that do not " \
          "draw through random.random()/uniform() once per bond are reported as undecided (note), not as violations; for more than " \
          "7 bonds only the visiting orders 'as iterated' and 'reversed' are tried (otherwise undecided)"
ASSUMPTIONS = ["random.random() draws are independent and uniform on [0,1) (CPython)",
               "a bond is 'kept' iff its own draw is below phi (Pr = phi), whichever draw that is: a fixed one-to-one assignment of the m draws "
               "to the m bonds pushes the product measure to the Bernoulli(phi) product measure on kept sets; the star statement "
               "Binomial(M,phi)/M follows from the per-bond law proved here"]
EXPECTED_LABELS = ["law", "input-untouched", "range"]
VALIDATE_EVERY = 7


def _graphs(tier):
    from networkx.generators.atlas import graph_atlas_g

    out = []
    for g in graph_atlas_g():
        n, m = g.number_of_nodes(), g.number_of_edges()
        if 1 <= n <= 4 or (tier == "thorough" and n == 5 and m <= 7):
            out.append((f"atlas-n{n}m{m}", sorted(g.nodes()), list(g.edges())))
    for M in range(1, 6):
        out.append((f"star{M}", list(range(M + 1)), [(0, j) for j in range(1, M + 1)]))
    # the vertex of highest degree sits in the smaller component
    out.append(("star3+path5", list(range(9)), [(0, 1), (0, 2), (0, 3), (4, 5), (5, 6), (6, 7), (7, 8)]))
    out.append(("star3+cycle5", list(range(9)), [(0, 1), (0, 2), (0, 3), (4, 5), (5, 6), (6, 7), (7, 8), (8, 4)]))
    # multigraphs: parallel edges are separate bonds
    out.append(("multi-double-edge", [0, 1], [(0, 1), (0, 1)]))
    out.append(("multi-triangle-doubled-side", [0, 1, 2], [(0, 1), (0, 1), (1, 2), (0, 2)]))
    out.append(("multi-path-triple", [0, 1, 2], [(0, 1), (1, 2), (1, 2), (1, 2)]))
    return out


def configs(tier):
    cfgs = []
    for gi, (nm, nodes, edges) in enumerate(_graphs(tier)):
        lab = {v: ([3, 8, 1, 6, 0, 11] if len(nodes) <= 6 else list(range(10, 30)))[j] for j, v in enumerate(nodes)}
        if nm == "star3":
            lab = {0: "hub", 1: 1, 2: 2, 3: "leaf"}  # vertex labels of mixed types
        for mode in ("sym", "one", "zero"):
            cfgs.append({"name": f"{gi}-{nm}-phi:{mode}", "nodes": [lab[v] for v in nodes],
                         "edges": [(lab[a], lab[b]) for a, b in edges], "phi": mode})
        if len(edges) in (2, 3):
            cfgs.append({"name": f"{gi}-{nm}-second-call", "nodes": [lab[v] for v in nodes], "edges": [(lab[a], lab[b]) for a, b in edges],
                         "phi": "sym", "second": True})
    return cfgs


def lcc(nodes, edges):
    adj = {v: set() for v in nodes}
    for a, b in edges:
        adj[a].add(b)
        adj[b].add(a)
    best, seen = 0, set()
    for s in nodes:
        if s in seen:
            continue
        comp, stack = {s}, [s]
        while stack:
            x = stack.pop()
            for y in adj[x]:
                if y not in comp:
                    comp.add(y)
                    stack.append(y)
        seen |= comp
        best = max(best, len(comp))
    return best


def lcc_table(nodes, order):
    """largest-component size for every subset (bit mask) of the bonds"""
    m = len(order)
    return [lcc(nodes, [order[j] for j in range(m) if mask >> j & 1]) for mask in range(1 << m)]


def explain(table, results, m, N, full_search):
    """a permutation p (draw j decides bond p[j]) with results[sigma] == lcc(bonds kept under p) / N for every pattern sigma, or None"""
    def fits(p):
        for sigma, S in results.items():
            mask = 0
            for j in range(m):
                if sigma[j]:
                    mask |= 1 << p[j]
            if abs(S * N - table[mask]) > 1e-9:
                return False
        return True

    ident = tuple(range(m))
    for p in (ident, ident[::-1]):
        if fits(p):
            return p
    if not full_search:
        return "not searched"
    for p in itertools.permutations(range(m)):
        if fits(p):
            return p
    return None


def path(ctx, cfg):
    from gcmpy.tools.bond_percolate import bond_percolate

    nodes, edges = cfg["nodes"], cfg["edges"]
    N, m = len(nodes), len(edges)
    multi = len(set(map(frozenset, edges))) != len(edges)
    g = nx.MultiGraph() if multi else nx.Graph()
    g.add_nodes_from(nodes)
    if multi:
        for j, (a, b) in enumerate(edges):
            g.add_edge(a, b, w=(a, b, j))
    else:
        g.add_edges_from(edges)
        for a, b in edges:
            g.edges[a, b]["w"] = (a, b)
    if cfg["phi"] == "sym":
        phi = ctx.real("phi", 0, 1)
        patterns = list(itertools.product([0, 1], repeat=m))
    else:
        phi = 1.0 if cfg["phi"] == "one" else 0.0
        patterns = [tuple([1 if cfg["phi"] == "one" else 0] * m)]
    before = (list(g.nodes()), [(a, b, dict(d)) for a, b, d in g.edges(data=True)])
    if cfg.get("second"):
        # an earlier call on the same graph object with phi = 0 (everything dropped) must leave no trace
        ctx.guard("percolate-raised", bond_percolate, g, 0.0)
    order = list(g.edges())
    results = {}
    undecided = False
    for sigma in patterns:
        seen = [0]

        def hook(r, sigma=sigma, seen=seen):
            j = seen[0]
            seen[0] += 1
            if j < m:
                ctx.assume((r < phi) if sigma[j] else (r > phi))  # the j-th draw of this call lies below / above phi

        ctx.random_hook = hook
        n0 = len(ctx.rng_log)
        try:
            S = ctx.guard("percolate-raised", bond_percolate, g, phi)
        finally:
            ctx.random_hook = None
        after = (list(g.nodes()), [(a, b, dict(d)) for a, b, d in g.edges(data=True)])
        ctx.require(before == after, "input-untouched", "bond_percolate modified its input graph", twin=(before != after))
        ok_range = isinstance(S, float) and any(abs(S * N - j) < 1e-9 for j in range(1, N + 1))
        ctx.require(ok_range, "range", f"result {S} is not a multiple of 1/{N} in [1/{N}, 1]", twin=(not ok_range))
        draws = [r for r in ctx.rng_log[n0:] if r["fn"] == "random"]
        if len(draws) != len(ctx.rng_log) - n0:
            ctx.note("undecided: edges are not randomised through random.random()/uniform() only")
            undecided = True
            break
        ctx.require(len(draws) == m, "law", f"nodes={nodes} edges={edges}: {len(draws)} uniform draws for {m} bonds (each bond needs its own independent draw)",
                    sig="law:draws-per-bond")
        if len(draws) != m or not ok_range:
            return
        results[sigma] = float(S)
    ctx.observe("S", [results[s] for s in sorted(results)])
    if undecided:
        return
    table = lcc_table(nodes, order)
    p = explain(table, results, m, N, full_search=m <= 7)
    if p == "not searched":
        ctx.note("undecided: results not explained by the bonds in iteration / reversed order and too many bonds to search every assignment")
        return
    shown = {"".join(map(str, s)): round(v * N) for s, v in sorted(results.items())}
    ctx.require(p is not None, "law",
                lambda: f"nodes={nodes} edges={order}: largest-component sizes by pattern of draws below phi {shown} are not those of the kept bonds "
                        f"under any one-to-one assignment of draws to bonds",
                twin=(explain(table, {tuple(1 - x for x in s): v for s, v in results.items()}, m, N, m <= 7) is not None)
                if m and table[-1] > 1 and len(patterns) > 1 else None)
