"""Shared machinery for C01/C02/C03: run one of the three generators on a symbolic joint degree
sequence with recording build/name callbacks; the RNG is the symbolic permutation stub."""
import itertools

from symx.core import SymInt, all_, any_, eq
from symx.rng import Tagged

# ---- motif configurations -----------------------------------------------------------------------


def star_motif(vs):
    return [(vs[0], v) for v in vs[1:]]


def bare_edge(vs):
    return (vs[0], vs[1])


def bare_edge_name():
    return "2-clique"


def path2(vs):
    return ((vs[0], vs[1]), (vs[1], vs[2]))


def path2_names():
    return ("p-first", "p-second")


def tri(vs):
    return (vs[0], vs[1]), (vs[0], vs[2]), (vs[1], vs[2])


def tri_names():
    return "3-clique", "3-clique", "3-clique"


def hub2(vs):  # orbit 0: one hub, orbit 1: two leaves -> exactly two edges
    return ((vs[0], vs[1]), (vs[0], vs[2]))


def hub2_names():
    return ("spoke-a", "spoke-b")


def diamond5(vs):  # orbits: 2 hubs (degree 3), 2 rims (degree 2)
    return ((vs[0], vs[2]), (vs[2], vs[1]), (vs[1], vs[3]), (vs[3], vs[0]), (vs[0], vs[1]))


def diamond5_names():
    return ("d-outer", "d-outer", "d-outer", "d-outer", "d-inner")


def simple_clique(vs):
    """a user callback whose number of edges varies: self-pairs and repeated pairs are dropped"""
    out = []
    for i in range(len(vs)):
        for j in range(i + 1, len(vs)):
            if vs[i] != vs[j] and not any((a == vs[i] and b == vs[j]) or (a == vs[j] and b == vs[i]) for a, b in out):
                out.append((vs[i], vs[j]))
    return out


def single_edge_list(vs):  # a one-edge motif returned as a proper list of edges
    return [(vs[0], vs[1])]


def single_edge_list_names():
    return ["e"]


def _std():
    from gcmpy.motif_generators.clique_motif import clique_motif
    from gcmpy.motif_generators.cycle_motif import cycle_motif
    from gcmpy.motif_generators.diamond_motif import diamond_motif

    return clique_motif, cycle_motif, diamond_motif


def motif_spec(name):
    """returns dict(kind='fast'|'custom', sizes=[...], builds=[...], names=[...], indices=[[...]])"""
    clique_motif, cycle_motif, diamond_motif = _std()
    F = {
        "k2": dict(sizes=[2], builds=[clique_motif], names=["2-clique"]),
        "k2k3": dict(sizes=[2, 3], builds=[clique_motif, clique_motif], names=["2-clique", "3-clique"]),
        "k3": dict(sizes=[3], builds=[clique_motif], names=["3-clique"]),
        "c3k2": dict(sizes=[3, 2], builds=[cycle_motif, clique_motif], names=["3-cycle", "2-clique"]),
        "c4": dict(sizes=[4], builds=[cycle_motif], names=["4-cycle"]),
        "diamond": dict(sizes=[4], builds=[diamond_motif], names=["diamond"]),
        "star3k2": dict(sizes=[3, 2], builds=[star_motif, clique_motif], names=["star", "2-clique"]),
        "one": dict(sizes=[1, 2], builds=[lambda vs: [], clique_motif], names=["nothing", "2-clique"]),
        # two topologies whose motifs have the same number of edges but different names
        "k3c3": dict(sizes=[3, 3], builds=[clique_motif, cycle_motif], names=["3-clique", "3-cycle"]),
        "k2k2": dict(sizes=[2, 2], builds=[clique_motif, clique_motif], names=["2-clique-red", "2-clique-blue"]),
        "k3simple": dict(sizes=[3], builds=[simple_clique], names=["simple-3"]),
        "k3simple+k2": dict(sizes=[3, 2], builds=[simple_clique, clique_motif], names=["simple-3", "2-clique"]),
        "k2k3k2": dict(sizes=[2, 3, 2], builds=[clique_motif, clique_motif, clique_motif], names=["a", "b", "c"]),
    }
    C = {
        "bare": dict(sizes=[2], indices=[[0]], builds=[bare_edge], names=[bare_edge_name]),
        "path2": dict(sizes=[3], indices=[[0]], builds=[path2], names=[path2_names]),
        "tri": dict(sizes=[3], indices=[[0]], builds=[tri], names=[tri_names]),
        "hub2": dict(sizes=[1, 2], indices=[[0, 1]], builds=[hub2], names=[hub2_names]),
        # one bare edge whose two ends are separate orbits of size 1 (tail / head), alone and next to an ordinary bare edge
        "arc": dict(sizes=[1, 1], indices=[[0, 1]], builds=[bare_edge], names=[bare_edge_name]),
        "arc+bare": dict(sizes=[1, 1, 2], indices=[[0, 1], [2]], builds=[bare_edge, bare_edge], names=[lambda: "arc", bare_edge_name]),
        "bare+tri": dict(sizes=[2, 3], indices=[[0], [1]], builds=[bare_edge, tri], names=[bare_edge_name, tri_names]),
        "bare+hub2": dict(sizes=[2, 1, 2], indices=[[0], [1, 2]], builds=[bare_edge, hub2], names=[bare_edge_name, hub2_names]),
        "diamond5": dict(sizes=[2, 2], indices=[[0, 1]], builds=[diamond5], names=[diamond5_names]),
        "edge1": dict(sizes=[2], indices=[[0]], builds=[single_edge_list], names=[single_edge_list_names]),
        # naming callbacks that return one-shot iterators (a generator, itertools.repeat) instead of tuples
        "tri-gen": dict(sizes=[3], indices=[[0]], builds=[tri], names=[lambda: (n for n in ("g1", "g2", "g3"))]),
        "path2-repeat": dict(sizes=[3], indices=[[0]], builds=[path2], names=[lambda: itertools.repeat("p", 2)]),
        # bare edge whose naming callback returns the per-edge form (one name in a tuple)
        "bare-t": dict(sizes=[2], indices=[[0]], builds=[bare_edge], names=[lambda: ("2-clique",)]),
        # a multi-orbit motif FOLLOWED by another motif (motif position != orbit index)
        "hub2+tri": dict(sizes=[1, 2, 3], indices=[[0, 1], [2]], builds=[hub2, tri], names=[hub2_names, tri_names]),
        "hub2+bare": dict(sizes=[1, 2, 2], indices=[[0, 1], [2]], builds=[hub2, bare_edge], names=[hub2_names, bare_edge_name]),
        "tri+tri2": dict(sizes=[3, 3], indices=[[0], [1]], builds=[tri, tri], names=[tri_names, lambda: ("t2", "t2", "t2")]),
        # orbits listed out of order: motif 0 uses columns 2 and 0
        "hub2-rev+bare": dict(sizes=[2, 2, 1], indices=[[2, 0], [1]], builds=[hub2, bare_edge], names=[hub2_names, bare_edge_name]),
    }
    if name in F:
        d = dict(F[name])
        d["kind"] = "fast"
        d["indices"] = [[k] for k in range(len(d["sizes"]))]
        return d
    d = dict(C[name])
    d["kind"] = "custom"
    return d


# ---- running a generator -------------------------------------------------------------------------


class Run:
    pass


def sym_jds(ctx, cfg, spec, tag=""):
    """symbolic joint degree sequence with the handshake precondition as a solver constraint"""
    N, D = cfg["N"], cfg["D"]
    K = len(spec["sizes"])
    d = [[ctx.int(f"d{tag}{v}_{k}", 0, D) for k in range(K)] for v in range(N)]
    if cfg.get("fixed_d"):
        for v in range(N):
            for k in range(K):
                ctx.assume(d[v][k] == cfg["fixed_d"][v][k])
    col = []
    for k in range(K):
        s = 0
        for v in range(N):
            s = s + d[v][k]
        col.append(s)
        ctx.assume(s % spec["sizes"][k] == 0)
    # multi-orbit motifs: every orbit of one motif must supply the same number of motif instances
    for idxs in spec["indices"]:
        k0 = idxs[0]
        for k in idxs[1:]:
            ctx.assume(col[k] * spec["sizes"][k0] == col[k0] * spec["sizes"][k])
    return [tuple(row) for row in d]


def run_generator(ctx, cfg):
    """executes the real generator; returns a Run with everything the obligations need"""
    from gcmpy.gcm_algorithm.gcm_algorithm_custom_motifs import GCMAlgorithmCustomMotifs
    from gcmpy.gcm_algorithm.gcm_algorithm_fast import GCMAlgorithmFast
    from gcmpy.gcm_algorithm.gcm_algorithm_main import GCMAlgorithmMain
    from gcmpy.gcm_algorithm.gcm_algorithm_network import GCMAlgorithmNetwork
    from gcmpy.gcm_algorithm.gcm_algorithm_types import GCMAlgorithmTypes
    from gcmpy.names.gcm_algorithm_names import GCMAlgorithmNames

    spec = motif_spec(cfg["motif"])
    r = Run()
    r.spec = spec
    r.calls = []
    r.name_calls = []

    def wrap_build(j, f):
        def build(vertices):
            args = list(vertices)
            ret = f(vertices)
            r.calls.append({"j": j, "args": args, "ret": ret, "obj": vertices})  # obj: the very object handed over (a callback may keep it)
            return ret

        return build

    def wrap_names(j, f):
        def names():
            ret = f()
            r.name_calls.append({"j": j, "ret": ret})
            return ret

        return names

    params = {
        GCMAlgorithmNames.MOTIF_SIZES: list(spec["sizes"]),
        GCMAlgorithmNames.BUILD_FUNCTIONS: [wrap_build(j, f) for j, f in enumerate(spec["builds"])],
        GCMAlgorithmNames.EDGE_NAMES: [wrap_names(j, f) for j, f in enumerate(spec["names"])] if spec["kind"] == "custom" else list(spec["names"]),
    }
    alg = cfg["alg"]
    if spec["kind"] == "custom":
        params[GCMAlgorithmNames.MOTIF_INDICES] = [list(i) for i in spec["indices"]]
    cls = {"fast": GCMAlgorithmFast, "network": GCMAlgorithmNetwork, "motifs": GCMAlgorithmCustomMotifs}[alg]
    via = cfg.get("via", "direct")
    if via == "direct":
        gen = cls(params)
    else:
        params[GCMAlgorithmNames.GCM_TYPE] = GCMAlgorithmTypes(alg) if via == "enum" else alg
        gen = GCMAlgorithmMain.load_gcm_algorithm(params)
    r.gen = gen
    r.cls_ok = type(gen) is cls
    r.jds = sym_jds(ctx, cfg, spec)
    r.jds_in = list(r.jds)
    if cfg.get("history") and cfg.get("first_identity"):
        # the outcome of the first call's shuffles is irrelevant for what is checked about the second call: keep it fixed
        def identity(c, orig, ps, rec):
            for j, p in enumerate(ps):
                c.assume(p == j)
        ctx.shuffle_policy = identity
    r.out = gen.random_clustered_graph(r.jds)
    ctx.shuffle_policy = None
    if cfg.get("history"):
        # a second call on the SAME generator object with an independent symbolic sequence: everything recorded is reset
        # so that the obligations are stated about the second call only
        first_d = [[ctx.fork_int(x) for x in row] for row in r.jds_in]
        n_rng = len(ctx.rng_log)
        r.calls.clear()
        r.name_calls.clear()
        cfg2 = dict(cfg)
        r.jds = sym_jds(ctx, cfg2, spec, tag="b")
        r.jds_in = list(r.jds)
        r.out = gen.random_clustered_graph(r.jds)
        r.first_d = first_d
        r.first_rng = list(ctx.rng_log[:n_rng])
        del ctx.rng_log[:n_rng]
    r.N = cfg["N"]
    r.d = [[ctx.fork_int(x) for x in row] for row in r.jds_in]  # concrete by now (forked at itertools.repeat)
    r.shuffles = [c for c in ctx.rng_log if c["fn"] in ("shuffle", "sample")]
    return r


def column_slots(r, k):
    """all stubs of joint-degree column k as seen by the build callbacks (in call order)"""
    spec = r.spec
    out = []
    for c in r.calls:
        idxs = spec["indices"][c["j"]]
        off = 0
        for idx in idxs:
            sz = spec["sizes"][idx]
            if idx == k:
                out.extend(c["args"][off:off + sz])
            off += sz
    return out


def expected_calls(r, j):
    k0 = r.spec["indices"][j][0]
    return sum(r.d[v][k0] for v in range(r.N)) // r.spec["sizes"][k0]


def as_edges(ret):
    """normalise a build callback's return value to a list of (a, b) pairs (bare edge allowed)"""
    if isinstance(ret, (tuple, list)) and len(ret) == 2 and not isinstance(ret[0], (tuple, list)):
        return [tuple(ret)]
    return [tuple(e) for e in ret]


def as_names(ret, n):
    if isinstance(ret, str):
        return [ret] * 1 if n == 1 else [ret]
    return list(ret)


def pair_eq(a, b):
    try:
        if len(a) != 2 or len(b) != 2:
            return False
    except TypeError:
        return False
    return all_([eq(a[0], b[0]), eq(a[1], b[1])])


def is_vertex(x):
    return isinstance(x, (int, SymInt)) and not isinstance(x, bool)


def edge_list_of(out):
    """(edge_list, topologies, motif_id, joint_degrees) of a LightWeightEdgeList"""
    return out.edge_list, out.topologies, out.motif_id, out.joint_degrees


def provenance_ok(r):
    """every stub object handed to a build callback comes from the shuffled stub list of one of the joint-degree columns
    that belong to that callback's motif type (identity of the very objects the RNG primitive produced); returns a list of
    (call index, motif type, columns found) for calls fed from the wrong column.  None if provenance cannot be established
    (concrete replay: plain ints carry no identity)."""
    owner = {}
    K = len(r.spec["sizes"])
    canon = [sorted(v for v in range(r.N) for _ in range(r.d[v][k])) for k in range(K)]
    used = set()
    for k in range(K):
        for i, rec in enumerate(r.shuffles):
            if i in used or rec["n"] != len(canon[k]):
                continue
            try:
                same = sorted(int(x) for x in (rec.get("orig") or rec.get("population") or [])) == canon[k]
            except Exception:  # noqa
                same = False
            if same:
                used.add(i)
                for x in rec["result"]:
                    if not isinstance(x, (SymInt, Tagged)):
                        return None
                    owner[id(x)] = k
                break
    bad = []
    for ci, c in enumerate(r.calls):
        cols = {owner.get(id(a)) for a in c["args"]}
        cols.discard(None)
        if cols and not cols <= set(r.spec["indices"][c["j"]]):
            bad.append((ci, c["j"], sorted(cols)))
    return bad
