"""Independent reference models for bond percolation on a small motif (no gcmpy code used).

All functions are written over plain Python arithmetic so they work with symx proxies (exact
polynomials in phi and u) and with floats (replay) alike.
"""
import itertools
from math import comb


def _component(n_nodes, edges, root):
    adj = {}
    for a, b in edges:
        adj.setdefault(a, []).append(b)
        adj.setdefault(b, []).append(a)
    seen = {root}
    stack = [root]
    while stack:
        x = stack.pop()
        for y in adj.get(x, ()):
            if y not in seen:
                seen.add(y)
                stack.append(y)
    return frozenset(seen)


def component_table(edges, root):
    """{component vertex set: {number of occupied edges k: number of edge subsets}} by brute force over
    all 2^|E| occupation patterns"""
    edges = list(edges)
    m = len(edges)
    table = {}
    for mask in range(1 << m):
        occ = [edges[i] for i in range(m) if mask >> i & 1]
        c = _component(None, occ, root)
        d = table.setdefault(c, {})
        d[len(occ)] = d.get(len(occ), 0) + 1
    return table


def expectation(edges, root, phi, u):
    """E[ prod_{v in comp(root) \\ root} u_v ] under independent occupation with probability phi.
    u: dict vertex -> value."""
    edges = list(edges)
    m = len(edges)
    total = 0
    for comp, by_k in sorted(component_table(edges, root).items(), key=lambda kv: sorted(kv[0])):
        prod = 1
        for v in sorted(comp):
            if v != root:
                prod = prod * u[v]
        poly = 0
        for k, cnt in sorted(by_k.items()):
            poly = poly + cnt * phi ** k * (1 - phi) ** (m - k)
        total = total + poly * prod
    return total


def expectation_multi(edges, root, p, u, fixed=None):
    """the same expectation with a separate occupation probability p[i] for edge number i (multilinear in every p[i]);
    fixed: {edge index: 0/1} pins edges to unoccupied / occupied"""
    edges = list(edges)
    m = len(edges)
    fixed = fixed or {}
    free = [i for i in range(m) if i not in fixed]
    total = 0
    for bits in itertools.product((0, 1), repeat=len(free)):
        occ = dict(fixed)
        occ.update(zip(free, bits))
        w = 1
        for i, b in zip(free, bits):
            w = w * (p[i] if b else (1 - p[i]))
        comp = _component(None, [edges[i] for i in range(m) if occ[i]], root)
        for v in sorted(comp):
            if v != root:
                w = w * u[v]
        total = total + w
    return total


def edge_monotonicity_pairs(edges, root):
    """distinct (component without edge e, component with edge e) pairs over all edges e and all 0/1 settings of the other
    edges, for which adding e really changes the root's component"""
    edges = list(edges)
    m = len(edges)
    pairs = set()
    for e in range(m):
        rest = [i for i in range(m) if i != e]
        for bits in itertools.product((0, 1), repeat=m - 1):
            occ = [edges[i] for i, b in zip(rest, bits) if b]
            c0 = _component(None, occ, root)
            c1 = _component(None, occ + [edges[e]], root)
            if c0 != c1:
                pairs.add((c0, c1))
    return sorted(pairs, key=lambda cc: (sorted(cc[0]), sorted(cc[1])))


def connected_prob_coeffs(n):
    """conn[k] (k=1..n) as polynomials in q=(1-phi) represented as {power of q: int coeff}:
    conn_n = 1 - sum_{k<n} C(n-1,k-1) conn_k q^{k(n-k)}   (no use of Q(n,k))"""
    conn = {1: {0: 1}}
    for nn in range(2, n + 1):
        poly = {0: 1}
        for k in range(1, nn):
            c = comb(nn - 1, k - 1)
            for p, a in conn[k].items():
                pw = p + k * (nn - k)
                poly[pw] = poly.get(pw, 0) - c * a
        conn[nn] = {p: a for p, a in poly.items() if a != 0}
    return conn


def clique_expectation(tau, phi, Hs):
    """exact expectation on K_tau with neighbour values Hs (len tau-1), via subset expansion:
    sum over subsets A of neighbours: prod_{A} H * P(comp(root) = A+root),
    P = conn_{|A|+1}(phi) * (1-phi)^{(|A|+1)(tau-1-|A|)}"""
    Hs = list(Hs)
    conn = connected_prob_coeffs(tau)
    q = 1 - phi
    total = 0
    for r in range(tau):
        cp = 0
        for p, a in sorted(conn[r + 1].items()):
            cp = cp + a * q ** p
        iface = q ** ((r + 1) * (tau - 1 - r))
        es = 0
        for A in itertools.combinations(range(tau - 1), r):
            prod = 1
            for i in A:
                prod = prod * Hs[i]
            es = es + prod
        total = total + es * cp * iface
    return total


def reliability_table(edges, nodes):
    """{k removed edges: number of ways the graph on `nodes` stays connected} by brute force"""
    edges = list(edges)
    nodes = list(nodes)
    m = len(edges)
    out = {}
    for mask in range(1 << m):
        keep = [edges[i] for i in range(m) if mask >> i & 1]
        if len(_component(None, keep, nodes[0])) == len(nodes):
            k = m - len(keep)
            out[k] = out.get(k, 0) + 1
    return out
