#!/usr/bin/env python3
"""False-alarm regression: every recorded property-preserving refactoring (seeded/benign/*) must leave its check at exit 0 without a
VIOLATION line.  Cases whose recorded run took more than LIMIT seconds are skipped.  usage: benign_recheck.py [LIMIT]"""
import glob
import json
import os
import subprocess
import sys

ROOT = os.path.dirname(os.path.dirname(os.path.abspath(__file__)))
limit = float(sys.argv[1]) if len(sys.argv) > 1 else 120
assert subprocess.run("git -C /repo status --porcelain", shell=True, capture_output=True, text=True).stdout.strip() == "", "/repo not clean"
evdir = os.path.join(ROOT, "evidence")
saved = {f: open(os.path.join(evdir, f)).read() for f in os.listdir(evdir) if f.endswith(".json")}
bad = []
try:
    for d in sorted(glob.glob(os.path.join(ROOT, "seeded", "benign", "C??_*"))):
        m = json.load(open(os.path.join(d, "meta.json")))
        p = m["property"]
        wall = max(r["wall_s"] for r in m["checks"].values())
        if wall > limit:
            print(f"{m['name']} skipped (recorded wall {wall} s)", flush=True)
            continue
        subprocess.run(f"git -C /repo apply {d}/patch.diff", shell=True, check=True)
        try:
            out = subprocess.run(f"./check {p} --tier quick", shell=True, cwd=ROOT, capture_output=True, text=True, timeout=1500)
            rc, txt = out.returncode, out.stdout
        except subprocess.TimeoutExpired:
            rc, txt = -9, ""
        finally:
            subprocess.run("git -C /repo checkout -- .", shell=True)
        ok = rc == 0 and "VIOLATION" not in txt
        print(f"{m['name']} exit={rc} {'quiet' if ok else 'ALARM/ERROR: ' + ' | '.join(l.strip()[:160] for l in txt.splitlines() if 'violated:' in l or 'HARNESS' in l)[:400]}", flush=True)
        if not ok:
            bad.append(m["name"])
finally:
    for f, t in saved.items():
        open(os.path.join(evdir, f), "w").write(t)
print("alarms or errors:", bad)
