#!/bin/bash
# usage: tools/reseed.sh <PROP> [tier]  -- re-run the property's check against every recorded seeded change (expects exit 1 each) ; evidence restored
p=$1; tier=${2:-quick}
cd /verif || exit 2
[ -z "$(git -C /repo status --porcelain)" ] || { echo "/repo not clean"; exit 2; }
cp evidence/$p.json /tmp/reseed_$p.json
for d in seeded/${p}_*; do
  git -C /repo apply /verif/$d/patch.diff || { echo "$d: patch does not apply"; continue; }
  out=$(./check $p --tier $tier 2>&1); rc=$?
  git -C /repo checkout -- .
  echo "$d exit=$rc $(echo "$out" | grep -c '^VIOLATION') violation-lines; $(echo "$out" | grep -m1 -o 'violated: [^ ]* \[[^]]*\]')"
done
cp /tmp/reseed_$p.json evidence/$p.json; rm -f /tmp/reseed_$p.json
