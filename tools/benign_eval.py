#!/usr/bin/env python3
"""False-alarm test: evaluate a property-PRESERVING refactoring and record it under /verif/seeded/benign/<name>/.

usage: benign_eval.py <PROPERTY> <worktree> <source dir> <name> [--checks C01,C02] [--tier quick]

  1. worktree clean; demo (an independent check of the property) exits 0 on the unmodified library
  2. patch applied in the worktree: the demo still exits 0; suite_with_change.json (tools/seed_suite.sh) says the whole suite passes
  3. patch applied to /repo's working tree: the listed checks are run; expected exit 0 and no VIOLATION line; reverted; evidence restored
  4. patch.diff, demo.py, notes.md, meta.json -> /verif/seeded/benign/<name>/
meta["alarm"] lists the checks that exited 1 or printed VIOLATION (false alarms unless the refactoring is shown not to preserve
the property), meta["degraded"] the checks that exited with the harness-error code 3.
"""
import argparse
import json
import os
import re
import shutil
import sys
import time

sys.path.insert(0, os.path.dirname(os.path.abspath(__file__)))
from seed_eval import PY, REPO, ROOT, sh  # noqa: E402


def main():
    ap = argparse.ArgumentParser()
    ap.add_argument("prop")
    ap.add_argument("worktree")
    ap.add_argument("src")
    ap.add_argument("name")
    ap.add_argument("--checks")
    ap.add_argument("--tier", default="quick")
    a = ap.parse_args()
    wt, src = a.worktree, a.src
    patch = os.path.join(src, "patch.diff")
    demo = os.path.join(src, "demo.py")
    meta = {"property": a.prop, "name": a.name, "kind": "benign-refactoring", "ran": []}
    env = {"PYTHONPATH": wt, "PYTHONDONTWRITEBYTECODE": "1"}

    rc, out = sh("git status --porcelain -- gcmpy test", cwd=wt)
    assert out.strip() == "", f"worktree not clean: {out}"
    rc, out = sh("git status --porcelain", cwd=REPO)
    assert out.strip() == "", f"/repo not clean: {out}"

    rc0, out0 = sh(f"{PY} {demo}", cwd=wt, env=env, timeout=1800)
    meta["demo_without_change"] = {"exit": rc0, "tail": out0[-300:]}
    rc, out = sh(f"git apply {patch}", cwd=wt)
    assert rc == 0, f"patch does not apply: {out}"
    try:
        rc1, out1 = sh(f"{PY} {demo}", cwd=wt, env=env, timeout=1800)
        meta["demo_with_change"] = {"exit": rc1, "tail": out1[-300:]}
    finally:
        sh("git checkout -- gcmpy", cwd=wt)
    pre = os.path.join(src, "suite_with_change.json")
    meta["suite_with_change"] = json.load(open(pre)) if os.path.exists(pre) else {"exit": None, "summary": "not run"}
    rc, out = sh(f"git apply --numstat {patch}", cwd=wt)
    meta["patch_numstat"] = out.strip().splitlines()

    checks = a.checks.split(",") if a.checks else [a.prop]
    rc, out = sh(f"git apply {patch}", cwd=REPO)
    assert rc == 0, f"patch does not apply to /repo: {out}"
    res = {}
    evdir = os.path.join(ROOT, "evidence")
    saved = {f: open(os.path.join(evdir, f)).read() for f in os.listdir(evdir) if f.endswith(".json")}
    try:
        for c in checks:
            t = time.time()
            rcc, outc = sh(f"./check {c} --tier {a.tier}", cwd=ROOT, timeout=7200)
            viol = re.findall(r"violated: (\S+) \[([^\]]+)\]", outc)
            try:
                ev = json.load(open(os.path.join(evdir, c + ".json")))
            except Exception:  # noqa
                ev = {}
            res[c] = {"exit": rcc, "wall_s": round(time.time() - t, 1), "violated": sorted({v[1] for v in viol}),
                      "violation_line": "VIOLATION property=" in outc,
                      "summary": [l for l in outc.splitlines() if l.startswith(c + " [")][-1:],
                      "paths": (ev.get("coverage") or {}).get("states"), "obligations": (ev.get("coverage") or {}).get("obligations"),
                      "unknown": (ev.get("coverage") or {}).get("unknown"), "harness_errors": ((ev.get("coverage") or {}).get("harness_errors") or [])[:3],
                      "first_problem": next((l.strip()[:500] for l in outc.splitlines() if "violated:" in l or "HARNESS" in l or "harness error" in l.lower()), None)}
    finally:
        sh("git checkout -- .", cwd=REPO)
        for f, txt in saved.items():
            open(os.path.join(evdir, f), "w").write(txt)
    meta["checks"] = res
    meta["ran"].append(f"git -C /repo apply patch.diff; ./check <id> --tier {a.tier} for {checks}; git -C /repo checkout -- .")
    meta["preserving_confirmed"] = bool(rc0 == 0 and rc1 == 0 and meta["suite_with_change"]["exit"] == 0)
    meta["alarm"] = [c for c, r in res.items() if r["exit"] == 1 or r["violation_line"]]
    meta["degraded"] = [c for c, r in res.items() if r["exit"] not in (0, 1)]

    dst = os.path.join(ROOT, "seeded", "benign", a.name)
    os.makedirs(dst, exist_ok=True)
    shutil.copy(patch, os.path.join(dst, "patch.diff"))
    shutil.copy(demo, os.path.join(dst, "demo.py"))
    notes = os.path.join(src, "notes.md")
    if os.path.exists(notes):
        shutil.copy(notes, os.path.join(dst, "notes.md"))
    json.dump(meta, open(os.path.join(dst, "meta.json"), "w"), indent=1)
    print(json.dumps({k: meta[k] for k in ("name", "preserving_confirmed", "alarm", "degraded")}),
          {c: (r["exit"], r["wall_s"], r["violated"][:3], r["first_problem"]) for c, r in res.items()})


if __name__ == "__main__":
    main()
