#!/bin/bash
# usage: seed_suite.sh <worktree> <A|B>   -- applies the seed patch in the scratch worktree, runs the whole existing suite, reverts
wt=$1; x=$2; d=$wt/seed/$x
cd $wt || exit 2
git checkout -q -- gcmpy
git apply $d/patch.diff || { echo '{"exit": -1, "summary": "patch does not apply"}' > $d/suite_with_change.json; exit 1; }
t0=$(date +%s)
out=$(/venv/bin/python -m pytest -q -p no:cacheprovider --timeout=900 --continue-on-collection-errors test 2>&1 | tail -3)
rc=$?
t1=$(date +%s)
git checkout -q -- gcmpy
sum=$(echo "$out" | grep -E "passed|failed|error" | tail -1)
python3 - "$d" "$sum" $((t1-t0)) <<'PY'
import json,sys
d,s,w=sys.argv[1],sys.argv[2],int(sys.argv[3])
ok = (" passed" in s) and ("failed" not in s) and ("error" not in s.lower())
json.dump({"exit": 0 if ok else 1, "summary": s, "wall_s": w}, open(d+"/suite_with_change.json","w"))
print(d, s)
PY
