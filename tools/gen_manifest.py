#!/usr/bin/env python3
"""Regenerates /verif/MANIFEST.json from the table below (keeps it schema-valid at all times)."""
import glob
import json
import os

ROOT = os.path.dirname(os.path.dirname(os.path.abspath(__file__)))
TECH = "bounded symbolic execution of the real Python functions with z3 (symx): RNG outcomes, numeric inputs and " \
       "real parameters are solver variables, discrete structure is forked by the solver, every obligation is an " \
       "SMT query per path; counterexamples are replayed on the real code"

# id -> (level text, level note, design ref)
CHECKS = {}


def claim(pid, text, note, ref):
    CHECKS[pid] = (text, note, ref)


NOT_YET = "harness not built yet in this session (work in progress; see DESIGN.md section 4 for the plan)"

claim("C20",
      "every add/remove/draw history of <= 4 (quick) / 6 (thorough) operations over a small universe is explored "
      "symbolically (draw index is a solver variable: 'member drawn' is a forall-query, 'every member drawable' an "
      "exists-query), plus an inductive step from every representation-invariant state, which extends the claim to "
      "histories of any length",
      "bounded: universe <= 5 elements, invariant states <= 4 members; trusts random.choice to be uniform; the "
      "inductive step reads the private fields named in the property's anchors",
      "DESIGN.md 4/C20")

claim("C15",
      "automated_equation is executed with phi and every u_v as solver reals; 'result = brute-force bond-percolation "
      "expectation' is decided by z3 (QF_NRA) as a polynomial identity for every connected motif on <=5 (quick) / <=6 "
      "(thorough) vertices x every focal vertex, plus cycles and K6; call histories on one evaluator with fresh symbols "
      "per call expose cache leaks",
      "bounded by motif size; floats are exact rationals (rounding outside); oracle = independent 2^|E| enumeration",
      "DESIGN.md 4/C15")
claim("C16",
      "clique_equation (tau-1 distinct symbolic H), chordless_cycle_equation and the connected-subgraph counter are "
      "proved identical as polynomials to independent oracles; Q(n,k)/QQ(n,k) are checked for all k at once through "
      "the component-decomposition identity in a real variable",
      "bounded: tau<=6/8, n<=8/12, Q n<=9/12, QQ n<=5/6, counter substrate <=4/5 vertices; trusts the Harary-Palmer "
      "decomposition lemma; floats exact",
      "DESIGN.md 4/C16")
claim("C18",
      "bond_percolate is executed with phi and one draw per bond as solver reals; on ONE path it is called once for each of "
      "the 2^|E| above/below-phi patterns of the draws (each draw is placed in its region before the library compares it and "
      "stays symbolic there) and the table of results must be the largest-component fractions of the kept bonds under some "
      "one-to-one assignment of draws to bonds (no assumption on the order in which bonds are visited); input graph unchanged",
      "bounded: graphs <=4 (quick) / 5 vertices, <=8 bonds (all assignments searched up to 7 bonds); the distributional "
      "statement (Bernoulli(phi) per bond, Binomial on stars) follows from the per-draw law under the trusted uniformity of "
      "random.random(); boundary r_e=phi (measure zero) excluded",
      "DESIGN.md 4/C18, 9.4")
claim("C13",
      "every small annotated network (adjacency bits, edge topologies and annotations are solver variables forked "
      "exhaustively) is fed to the real extractor three times in a row; every matrix entry is compared with a direct "
      "edge-end count, plus symmetry, total, row sums and the overall-degree variant",
      "bounded exhaustive symbolic exploration (n<=4/5 vertices, <=2 topologies, annotation pool of 3); matrices are "
      "concrete on each path, floats compared to exact rationals at 1e-9",
      "DESIGN.md 4/C13")
claim("C14",
      "forward excess formula, inversion round trip, matrix row sums and mean degree are decided as identities over "
      "positive symbolic reals (all probabilities / matrix entries are solver variables, key supports are forked), "
      "for several topology-name lists; clean networks tie the matrix row sums to the empirical jdd",
      "bounded: <=3/4 keys, <=4 topologies, degrees <=2/3; floats exact; inversion only under its stated precondition",
      "DESIGN.md 4/C14")

claim("C01",
      "the three generators (direct and through the factory) run on a symbolic joint degree sequence (handshake "
      "precondition as solver constraint, forked at itertools.repeat) with random.shuffle replaced by a symbolic "
      "permutation: per path ONE integer query proves for all n! shuffle outcomes that every vertex fills exactly "
      "jds[v][k] slots, slots stay in 0..N-1, call counts/arity are right and the emitted edges are the callbacks' returns",
      "bounded: N<=3 (quick) / 5 (thorough), entries <=2, <=3 columns, 24 motif configurations (equal edge counts, "
      "multi-orbit motif followed by another, orbits out of column order) and a second call on the same generator "
      "object; handshake precondition assumed; the network variant forks on the permutation and is explored at N<=3/4",
      "DESIGN.md 4/C01")
claim("C02",
      "same symbolic exploration as C01; on every path the three columns must be parallel, every entry a pair of "
      "vertex terms, the rows of one motif id exactly one recorded callback return (solver equality of the vertex "
      "terms for all shuffles), names per topology / per position incl. bare-edge and two-edge motifs",
      "bounded as C01 (no network variant); callback conventions follow the repository's own custom-motif fixture",
      "DESIGN.md 4/C02")
claim("C03",
      "uniformity is decided by (1) one full-length uniform primitive per column on its canonical stub list, (2) "
      "solver proofs that arrangement -> slot sequence is well defined and injective (two symbolic permutations), (3) "
      "independence of columns, (4) exact model counting over all permutations (blocking clauses) on small sequences "
      "incl. the 8/8/8 perfect-matching example; generators that randomise through bounded discrete draws (hand-written "
      "Fisher-Yates) are decided by (4) alone: one path per resolution of the draws, probability prod 1/range, table over all paths",
      "trusts CPython's shuffle / randrange to be uniform; <=6 (quick) / 8 stubs per column for 1-3, <=5 stubs for the tallies; "
      "generators randomising through real-valued draws are reported undecided",
      "DESIGN.md 4/C03, 9.4")

claim("C04",
      "both converters run on edge lists whose end points are solver variables (forked by networkx hashing: self-loops, "
      "repeated and reversed pairs included) while names, motif ids and joint-degree entries stay symbolic payload, so "
      "'the edge carries its own entry's name/id' and the round trips are solver-decided equalities of terms",
      "bounded: N<=3/4 vertices, <=3/4 edge entries, 1-2 columns; names modelled as opaque integer tokens; pairs occurring "
      "more than once are unconstrained, as in the property",
      "DESIGN.md 4/C04")

claim("C05",
      "sample_jds_from_jdd runs with symbolic positive weights and symbolic draw indices (random.choices / randrange / choice "
      "stubs); the N drawn keys are observed at the public handshaking_lemma; divisibility, never-removes and minimal-addition "
      "are integer queries valid for every draw outcome on the path; the weighted-draw law is the cross-ratio identity of the "
      "weights handed to the weighted choices call, or - for samplers built on random.random() - entailment of the cumulative-weight "
      "interval plus an exact table of path measures (volume of each path's box of uniform variates) on concrete weight vectors",
      "bounded: N<=3/4, <=3/4 keys, <=3 topologies (duplicate motif sizes included), entries <=2/3, numpy-scalar keys, "
      "resample histories on one loader; law-by-measure on four concrete weight vectors with N<=2; trusts random.choices' "
      "weighting and random.random()'s uniformity; other draw mechanisms are reported undecided",
      "DESIGN.md 4/C05, 9.4")
claim("C06",
      "every loader is run with symbolic payload (weights, marginal values and joint-function values are fresh positive "
      "reals from harness lookup tables, bounds and observed sequences are solver variables forked at range/Counter); "
      "support and values are compared with the documented law, directly and through the dispatcher",
      "bounded: width<=3/4, <=2/3 topologies, sequences <=3/4, n_samples<=3, one concrete 320x321 box (no RNG call "
      "allowed in direct mode), other loader objects built before and after; both readings of the degree interval "
      "accepted; sampling mode decided structurally (draw call + frequency table), its convergence is statistical",
      "DESIGN.md 4/C06")
claim("C07",
      "split-degree and delta loaders run with symbolic fp(k) and per-topology probabilities; overall-degree law, "
      "within-degree split and normalisation are QF_NRA identities against independently enumerated splits, for every "
      "forked range and target (inside, at the edges, outside)",
      "bounded: k<=4/7, <=3/4 topologies, probability vectors with exact zeros, degrees around 258 (support only), a "
      "second loader from the same parameter objects, caller's list unchanged; where the direct normalisation query "
      "times out it is decided from the discharged overall-law lemma (recorded in evidence notes)",
      "DESIGN.md 4/C07")
claim("C08",
      "the cover itself is made of solver variables (sizes, members, with the contiguity precondition as constraint) "
      "and forked exhaustively; reported motif sizes, column count and the per-vertex clique counts are compared with "
      "a direct count",
      "bounded exhaustive symbolic exploration: <=2/3 cliques over <=5 vertices (1-cliques over <=4), size-pattern "
      "families over 6, covers with an 8/9-clique, two concrete high-multiplicity covers, a cover given through the "
      "setter; the table is concrete on each path",
      "DESIGN.md 4/C08")

claim("C09",
      "EECC runs on graphs whose adjacency bits are solver variables (no-isolated-vertex precondition as constraint) "
      "with every random.choice tie-break a solver variable forked over its distinct outcomes: every (graph, tie-break "
      "sequence) inside the bound is explored and checked for exact edge cover, clique-ness, size bound, empty working "
      "graph and intact isolated maximal cliques",
      "bounded exhaustive symbolic exploration: all graphs <=5 vertices x m0 2..6, all 6-vertex graphs at m0=2 (quick) "
      "and m0<=4 (thorough), 6-7 vertex templates, reversed insertion / gapped labels / object histories for n<=5; the "
      "cover is concrete on each path",
      "DESIGN.md 4/C09")
claim("C10",
      "MPCC runs on graphs whose adjacency bits are solver variables and with the shuffle a symbolic permutation that is "
      "forked (items are lists); label well-formedness, exact clique classes, id uniqueness, size limit and greedy "
      "maximality are checked on every explored ordering",
      "bounded exhaustive symbolic exploration: graphs <=4 vertices, 5 vertices <=4 edges (quick) / all 5-vertex, 6-vertex "
      "<=7 edges (thorough); full n! orderings up to 120/720, beyond that the declared block reduction (ascending size "
      "blocks, all orders inside classes of size>=3) - exact for implementations that order by size after shuffling",
      "DESIGN.md 4/C10")

claim("C11",
      "inductive step over swap histories: the pre-state is any clean motif network inside the bound (motif member ids "
      "and annotation extras are solver variables), rewire() performs one accepted swap with every edge draw forked and "
      "the target entries / Metropolis draw symbolic, and the post-state must again be a clean network of the same "
      "shapes with the same vertices, annotations, per-topology degrees, no self-loop; input untouched; defaults construct",
      "bounded: placements on <=4-5 (quick) / 6 vertices plus fixed consistent templates up to 12 vertices, <=6/9 RNG "
      "draws; failed attempts are pruned after the hook has verified that the state repeats; ONE KNOWN FINDING is listed "
      "in known_findings.txt (new corner edges inherit the opposite motif id) and printed as KNOWN-FINDING",
      "DESIGN.md 4/C11, 5")
claim("C12",
      "same exploration with a lazy symbolic target: first lookup of a pairing forks absent / present(w>=0); every edge "
      "created by an accepted swap must pair excess degrees whose entry is present and provably positive on that path, "
      "and every evaluated proposal must be accepted iff r < prod(new)/prod(old) (both directions, QF_NRA)",
      "the statistical sub-claim 'distance to the target decreases' is NOT decided (false for single RNG outcomes even "
      "for a correct sampler); decided instead: the hard pairing rule and the Metropolis rule; bounded as C11; wraps the "
      "instance method swap_condition to observe proposals",
      "DESIGN.md 4/C12")

claim("C17",
      "step obligation with phi and EVERY message a fresh solver real: each real calculate_H_tau call must write exactly "
      "the brute-force bond-percolation expectation of its motif with u_j = product of j's other motifs' messages "
      "(polynomial identity => holds at every iteration of every run); whole runs with symbolic phi equal a reference "
      "Gauss-Seidel sweep of the exact equations (25 iterations on tree-like networks); query histories; sweep coverage; "
      "range, per-message monotonicity and phi-monotonicity of the step (direct query for <=3-vertex motifs, per-edge "
      "decomposition - diagonal identity, affine in every edge probability, corner inequalities - for larger ones)",
      "convergence to the fixed point is analysis and NOT decided; phi-monotonicity for motifs of >=4 vertices is decided up "
      "to the corner lemma for multi-affine functions; pool of 7/8 networks; floats exact",
      "DESIGN.md 4/C17")
claim("C19",
      "the four factories run with symbolic parameters; exp and real powers are uninterpreted functions with instantiated "
      "true axioms, so the closed forms, the Poisson recurrence, non-negativity, geometric partial sums and "
      "normalisation over the truncated support (every dropped term < 1e-6) are valid for the real functions when "
      "the solver answers unsat; the truncation loop is unrolled by forking",
      "the infinite sums / tail sizes are transcendental analysis and NOT decided; truncation index K<=6/10 (large alpha) "
      "only; a model that does not reproduce numerically is reported undecided (abstraction artefact)",
      "DESIGN.md 4/C19")


def main():
    props = [json.loads(l)["id"] for l in open(os.path.join(ROOT, "properties.jsonl"))]
    have = {os.path.basename(p)[:3].upper() for p in glob.glob(os.path.join(ROOT, "harness", "c*_*.py"))}
    checks = []
    na = []
    for pid in props:
        if pid in CHECKS and pid in have:
            text, note, ref = CHECKS[pid]
            checks.append({
                "property_id": pid,
                "quick_cmd": f"./check {pid} --tier quick",
                "thorough_cmd": f"./check {pid} --tier thorough",
                "evidence_file": f"/verif/evidence/{pid}.json",
                "replay_cmd_template": f"./check {pid} --replay {{path}}",
                "engine": "symx",
                "level_claimed": {"category": "model_checking", "text": text, "design_ref": ref},
                "level_note": note,
                "technique": TECH,
            })
        else:
            na.append({"property_id": pid, "reason": NA.get(pid, NOT_YET)})
    man = {
        "version": 1,
        "setup_cmd": "./setup.sh",
        "hooks": {
            "guard": "GCMPY_VERIF",
            "enable": "no source hooks: the checks patch random.* in-process before importing gcmpy from /repo's "
                      "working tree and pass harness-owned callbacks through the public API; GCMPY_VERIF=1 is "
                      "exported by ./check but read by no file under /repo",
            "baseline_off_cmd": "cd /repo && /venv/bin/python -m pytest -ra -q -p no:cacheprovider --timeout=900 "
                                "--continue-on-collection-errors",
            "source_commits": [],
            "add_only": True,
        },
        "engines": [{
            "name": "symx",
            "path": "/verif/symx",
            "serves_properties": [c["property_id"] for c in checks],
            "kind_free_text": "proxy-based symbolic executor for Python on z3 5.1 (path exploration by re-execution, "
                              "16 worker processes), obligations discharged per path, replay on the real code",
        }],
        "checks": checks,
        "not_applicable": na,
        "notes": "All checks run /repo's current working tree (sys.path[0]=/repo, no bytecode cache). Exit 3 = harness "
                 "error (non-reproducing model, witness mismatch, vacuity guard), never reported as a violation.",
    }
    if not na:
        del man["not_applicable"]
    json.dump(man, open(os.path.join(ROOT, "MANIFEST.json"), "w"), indent=1)
    print(f"MANIFEST.json: {len(checks)} checks, {len(na)} not_applicable")


NA = {}

if __name__ == "__main__":
    main()
