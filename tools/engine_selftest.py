#!/usr/bin/env python3
"""Self-test of the symx proxies against the Python interpreter (translator validation, independent of gcmpy).

Small random programs over ints / reals (arithmetic, //, %, comparisons, branches, list indexing, abs, pow, min/max)
are explored symbolically; for every completed path the model of the path condition is pushed through the same
program with plain Python numbers and the results must agree; and the union of the paths must cover the whole
(small) input domain exactly once.   usage: .venv/bin/python tools/engine_selftest.py [n_programs] [seed]
"""
import itertools
import os
import random
import sys
from fractions import Fraction

ROOT = os.path.dirname(os.path.dirname(os.path.abspath(__file__)))
sys.path.insert(0, ROOT)

import z3  # noqa: E402

from symx.core import Ctx, PathAbort, SymInt, SymReal, ite, select  # noqa: E402


def gen_int_program(rnd):
    """returns a function f(a, b, c) built from a random expression / branch tree"""
    ops = ["+", "-", "*", "//", "%", "abs", "min", "max", "idx", "cmp"]

    def expr(depth):
        if depth == 0 or rnd.random() < 0.25:
            return rnd.choice(["a", "b", "c", str(rnd.randint(-3, 4))])
        op = rnd.choice(ops)
        x, y = expr(depth - 1), expr(depth - 1)
        if op in "+-*":
            return f"({x} {op} {y})"
        if op in ("//", "%"):
            return f"({x} {op} {rnd.randint(1, 4)})"
        if op == "abs":
            return f"abs({x})"
        if op in ("min", "max"):
            return f"{op}({x}, {y})"
        if op == "idx":
            return f"[{x}, {y}, 7][({x}) % 3]"
        return f"(1 if {x} < {y} else 0)"

    def stmt(depth):
        if depth == 0 or rnd.random() < 0.3:
            return [f"r = r + {expr(2)}"]
        c = f"{expr(2)} {rnd.choice(['<', '<=', '==', '!=', '>'])} {expr(2)}"
        return [f"if {c}:"] + ["    " + s for s in stmt(depth - 1)] + ["else:"] + ["    " + s for s in stmt(depth - 1)]

    body = ["r = 0"] + stmt(2) + stmt(2) + ["return r"]
    src = "def f(a, b, c):\n" + "\n".join("    " + l for l in body)
    ns = {}
    exec(src, ns)
    return ns["f"], src


def explore(fn, make_inputs):
    """all paths of fn over symbolic inputs; returns list of (model values, symbolic result evaluated under the model)"""
    out, stack = [], [[]]
    while stack:
        prefix = stack.pop()
        ctx = Ctx(prefix=prefix)
        Ctx.current = ctx
        try:
            ins = make_inputs(ctx)
            res = fn(*ins)
            m = ctx.get_model()
            vals = ctx.model_values(m)

            def ev(x):
                if isinstance(x, SymInt):
                    return x._cv if x._cv is not None else m.eval(x.e, model_completion=True).as_long()
                if isinstance(x, SymReal):
                    q = lambda e: (lambda v: Fraction(v.numerator_as_long(), v.denominator_as_long()))(m.eval(e, model_completion=True))
                    return q(x.n) if x.d is None else q(x.n) / q(x.d)
                return x

            out.append((vals, ev(res), list(ctx.pc)))
        except PathAbort:
            pass
        finally:
            Ctx.current = None
        stack.extend(ctx.children)
    return out


def main():
    n = int(sys.argv[1]) if len(sys.argv) > 1 else 150
    seed = int(sys.argv[2]) if len(sys.argv) > 2 else 1
    rnd = random.Random(seed)
    dom = range(-2, 3)
    bad = 0
    paths_total = 0
    for k in range(n):
        f, src = gen_int_program(rnd)
        paths = explore(f, lambda ctx: [ctx.int(nm, dom[0], dom[-1]) for nm in "abc"])
        paths_total += len(paths)
        # (1) witness agreement
        for vals, res, pc in paths:
            want = f(vals["a"], vals["b"], vals["c"])
            if want != res:
                bad += 1
                print(f"MISMATCH program {k}: inputs {vals} symbolic {res} python {want}\n{src}")
        # (2) the path conditions partition the domain
        for a, b, c in itertools.product(dom, repeat=3):
            hits = 0
            for vals, res, pc in paths:
                s = z3.Solver()
                s.add(*pc)
                s.add(z3.Int("a") == a, z3.Int("b") == b, z3.Int("c") == c)
                if s.check() == z3.sat:
                    hits += 1
                    # (3) and on each covered point the symbolic result is right (evaluate under that very point)
            if hits != 1:
                bad += 1
                print(f"PARTITION program {k}: point {(a, b, c)} lies on {hits} paths\n{src}")
                break
    # reals: rational functions and comparisons
    for k in range(n // 3):
        coef = [rnd.randint(-3, 3) for _ in range(6)]

        def g(x, y, coef=coef):
            u = (coef[0] * x + coef[1]) / (y * y + 1) + coef[2] * x * y
            v = abs(u - coef[3]) + (x ** 2) * Fraction(1, 2)
            if v > coef[4] + y:
                return v - u / (1 + x * x)
            return (v + coef[5]) * Fraction(1, 4)

        for vals, res, pc in explore(g, lambda ctx: [ctx.real("x", -3, 3), ctx.real("y", -3, 3)]):
            paths_total += 1
            x, y = Fraction(vals["x"]), Fraction(vals["y"])
            want = g(x, y)
            if Fraction(want) != Fraction(res):
                bad += 1
                print(f"MISMATCH real program {k}: {vals} symbolic {res} python {want}")
    # select / ite
    ctx = Ctx()
    Ctx.current = ctx
    i = ctx.int("i", 0, 3)
    s = select([10, 20, 30, 40], i)
    r, m = ctx._check(s.e == 30)
    assert r == "sat" and m.eval(i.e).as_long() == 2
    assert ite(True, 1, 2) == 1
    Ctx.current = None
    # int() / floor() / ceil() of symbolic reals: every path's model must agree with Python on exact rationals
    import math

    def h(x, y):
        a = int(x * 3)
        b = math.floor(y * 2 - x)
        c = math.ceil(x - y)
        return a + 10 * b + 100 * c + 1000 * int(-x * 2)

    for vals, res, pc in explore(h, lambda ctx: [ctx.real("x", -2, 2), ctx.real("y", -2, 2)]):
        paths_total += 1
        x, y = Fraction(vals["x"]), Fraction(vals["y"])
        want = h(x, y)
        if want != res:
            bad += 1
            print(f"MISMATCH int/floor/ceil: {vals} symbolic {res} python {want}")
    # exists() with a fork inside its thunk (list indexing by a drawn value) and nothing left behind on the path
    ctx = Ctx()
    Ctx.current = ctx
    items = [10, 20, 30]
    k0 = ctx.int("k0", 0, 2)
    t_before, pc_before = len(ctx.trace), len(ctx.pc)
    for want in items:
        if not ctx.exists(lambda want=want: items[ctx.int(ctx.uniq("d"), 0, 2)] == want, "selftest-exists"):
            bad += 1
            print(f"exists(): no witness for {want}")
    if ctx.exists(lambda: items[ctx.int(ctx.uniq("d"), 0, 1)] == 30, "selftest-exists-negative"):
        bad += 1
        print("exists(): witness claimed for an unreachable item")
    if (len(ctx.trace), len(ctx.pc)) != (t_before, pc_before) or ctx.children:
        bad += 1
        print("exists(): decisions of the thunk leaked onto the path")
    # box_volume: two uniform variates cut by linear comparisons
    u, v = ctx.real("u", 0, 1, hi_strict=True), ctx.real("v", 0, 1, hi_strict=True)
    ctx.assume(u * 4 < 3)
    ctx.assume(v * 5 >= 1)
    ctx.assume(v < Fraction(1, 2))
    if ctx.box_volume([u, v]) != Fraction(3, 4) * (Fraction(1, 2) - Fraction(1, 5)):
        bad += 1
        print("box_volume: wrong volume", ctx.box_volume([u, v]))
    ctx.assume(u < v)
    if ctx.box_volume([u, v]) is not None:
        bad += 1
        print("box_volume: a non-box region was measured")
    Ctx.current = None
    print(f"engine self-test: {n} int programs + {n // 3} real programs, {paths_total} paths, {bad} problems")
    sys.exit(1 if bad else 0)


if __name__ == "__main__":
    main()
