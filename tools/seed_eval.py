#!/usr/bin/env python3
"""Confirm a seeded change and record it under /verif/seeded/<name>/.

usage: seed_eval.py <PROPERTY> <worktree> <source seed dir> <name> [--checks C01,C02] [--tier quick]

Steps (everything that touches library source happens in the scratch worktree, never committed anywhere):
  1. worktree clean; demo passes (exit 0) on the unmodified library
  2. patch applied in the worktree: demo fails (exit != 0); the whole existing test suite still passes
  3. patch applied to /repo's working tree: the listed checks are run (exit code, VIOLATION lines, wall time); reverted
  4. patch.diff, demo.py, notes.md and meta.json are written to /verif/seeded/<name>/
"""
import argparse
import json
import os
import re
import shutil
import subprocess
import sys
import time

ROOT = os.path.dirname(os.path.dirname(os.path.abspath(__file__)))
REPO = "/repo"
PY = "/venv/bin/python"


def sh(cmd, cwd=None, env=None, timeout=3600):
    e = dict(os.environ)
    e.update(env or {})
    p = subprocess.run(cmd, shell=True, cwd=cwd, env=e, capture_output=True, text=True, timeout=timeout)
    return p.returncode, (p.stdout + p.stderr)


def main():
    ap = argparse.ArgumentParser()
    ap.add_argument("prop")
    ap.add_argument("worktree")
    ap.add_argument("src")
    ap.add_argument("name")
    ap.add_argument("--checks")
    ap.add_argument("--tier", default="quick")
    ap.add_argument("--skip-suite", action="store_true")
    a = ap.parse_args()
    wt, src = a.worktree, a.src
    patch = os.path.join(src, "patch.diff")
    demo = os.path.join(src, "demo.py")
    meta = {"property": a.prop, "name": a.name, "ran": []}
    env = {"PYTHONPATH": wt, "PYTHONDONTWRITEBYTECODE": "1"}

    rc, out = sh("git status --porcelain -- gcmpy test", cwd=wt)
    assert out.strip() == "", f"worktree not clean: {out}"
    rc, out = sh("git status --porcelain", cwd=REPO)
    assert out.strip() == "", f"/repo not clean: {out}"

    rc0, out0 = sh(f"{PY} {demo}", cwd=wt, env=env, timeout=1800)
    meta["demo_without_change"] = {"exit": rc0, "tail": out0[-400:]}
    rc, out = sh(f"git apply {patch}", cwd=wt)
    assert rc == 0, f"patch does not apply: {out}"
    try:
        rc1, out1 = sh(f"{PY} {demo}", cwd=wt, env=env, timeout=1800)
        meta["demo_with_change"] = {"exit": rc1, "tail": out1[-600:]}
        pre = os.path.join(src, "suite_with_change.json")
        if os.path.exists(pre):
            meta["suite_with_change"] = json.load(open(pre))
            a.skip_suite = False
        elif not a.skip_suite:
            t = time.time()
            rcs, outs = sh(f"{PY} -m pytest -q -p no:cacheprovider --timeout=900 --continue-on-collection-errors test", cwd=wt, timeout=3600)
            last = [l for l in outs.strip().splitlines() if " passed" in l or " failed" in l or "error" in l.lower()][-1:]
            meta["suite_with_change"] = {"exit": rcs, "summary": last[0] if last else outs[-200:], "wall_s": round(time.time() - t)}
    finally:
        sh("git checkout -- gcmpy", cwd=wt)
    meta["ran"].append(f"cd {wt} && {PY} demo.py (clean: exit {rc0}; with patch: exit {rc1}); full pytest suite with patch")

    checks = (a.checks.split(",") if a.checks else [a.prop])
    rc, out = sh(f"git apply {patch}", cwd=REPO)
    assert rc == 0, f"patch does not apply to /repo: {out}"
    res = {}
    # the evidence files must keep describing runs on the unchanged tree: save them, restore them afterwards
    evdir = os.path.join(ROOT, "evidence")
    saved = {f: open(os.path.join(evdir, f)).read() for f in os.listdir(evdir) if f.endswith(".json")}
    try:
        for c in checks:
            t = time.time()
            rcc, outc = sh(f"./check {c} --tier {a.tier}", cwd=ROOT, timeout=7200)
            viol = re.findall(r"violated: (\S+) \[([^\]]+)\]", outc)
            res[c] = {"exit": rcc, "wall_s": round(time.time() - t, 1), "violated": sorted({v[1] for v in viol}),
                      "detected": rcc == 1 and "VIOLATION property=" in outc,
                      "summary": [l for l in outc.splitlines() if l.startswith(c + " [")][-1:],
                      "first_violation": next((l.strip()[:400] for l in outc.splitlines() if "violated:" in l), None)}
    finally:
        sh("git checkout -- .", cwd=REPO)
        for f, txt in saved.items():
            open(os.path.join(evdir, f), "w").write(txt)
    meta["checks"] = res
    meta["ran"].append(f"git -C /repo apply patch.diff; ./check <id> --tier {a.tier} for {checks}; git -C /repo checkout -- .")
    meta["confirmed"] = bool(rc0 == 0 and rc1 != 0 and (a.skip_suite or meta["suite_with_change"]["exit"] == 0))
    meta["caught_by"] = [c for c, r in res.items() if r["detected"]]

    dst = os.path.join(ROOT, "seeded", a.name)
    os.makedirs(dst, exist_ok=True)
    shutil.copy(patch, os.path.join(dst, "patch.diff"))
    shutil.copy(demo, os.path.join(dst, "demo.py"))
    notes = os.path.join(src, "notes.md")
    if os.path.exists(notes):
        shutil.copy(notes, os.path.join(dst, "notes.md"))
        txt = open(notes).read()
        meta["needs_to_manifest"] = txt[:1500]
    json.dump(meta, open(os.path.join(dst, "meta.json"), "w"), indent=1)
    print(json.dumps({k: meta[k] for k in ("name", "confirmed", "caught_by")}), {c: (r["exit"], r["wall_s"], r["violated"][:3]) for c, r in res.items()})


if __name__ == "__main__":
    main()
