#!/usr/bin/env python3
"""Regression over the recorded seeded changes: re-run each property's quick check against every seed whose recorded run took
< LIMIT seconds (expects exit 1 with a VIOLATION line), restoring the evidence files afterwards.
usage: reseed_fast.py [LIMIT] [C01 C02 ...]"""
import glob
import json
import os
import subprocess
import sys

ROOT = os.path.dirname(os.path.dirname(os.path.abspath(__file__)))
limit = float(sys.argv[1]) if len(sys.argv) > 1 else 120
props = sys.argv[2:]
assert subprocess.run("git -C /repo status --porcelain", shell=True, capture_output=True, text=True).stdout.strip() == "", "/repo not clean"
evdir = os.path.join(ROOT, "evidence")
saved = {f: open(os.path.join(evdir, f)).read() for f in os.listdir(evdir) if f.endswith(".json")}
bad = []
try:
    for d in sorted(glob.glob(os.path.join(ROOT, "seeded", "C??_*"))):
        m = json.load(open(os.path.join(d, "meta.json")))
        p = m["property"]
        if props and p not in props:
            continue
        wall = max(r["wall_s"] for r in m["checks"].values())
        if not m.get("caught_by") or wall > limit:
            print(f"{m['name']} skipped (recorded: caught_by={m.get('caught_by')}, wall {wall} s)", flush=True)
            continue
        subprocess.run(f"git -C /repo apply {d}/patch.diff", shell=True, check=True)
        try:
            out = subprocess.run(f"./check {p} --tier quick", shell=True, cwd=ROOT, capture_output=True, text=True, timeout=1500)
            rc, txt = out.returncode, out.stdout
        except subprocess.TimeoutExpired:
            rc, txt = -9, ""
        finally:
            subprocess.run("git -C /repo checkout -- .", shell=True)
        ok = rc == 1 and "VIOLATION property=" in txt
        first = next((l.strip()[:110] for l in txt.splitlines() if "violated:" in l), "")
        print(f"{m['name']} exit={rc} {'caught' if ok else 'NOT CAUGHT'} {first}", flush=True)
        if not ok:
            bad.append(m["name"])
finally:
    for f, t in saved.items():
        open(os.path.join(evdir, f), "w").write(t)
print("regressions:", bad)
