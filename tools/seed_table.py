#!/usr/bin/env python3
"""Rewrites section 10 of DESIGN.md from /verif/seeded/*/meta.json."""
import glob
import json
import os
import re

ROOT = os.path.dirname(os.path.dirname(os.path.abspath(__file__)))
# result of the FIRST evaluation of each seed (before any check was strengthened because of it) and what was changed afterwards
FIRST = json.load(open(os.path.join(ROOT, "seeded", "first_results.json")))


def main():
    rows = []
    for f in sorted(glob.glob(os.path.join(ROOT, "seeded", "*", "meta.json"))):
        m = json.load(open(f))
        name = m["name"]
        notes = m.get("needs_to_manifest", "")
        first_line = next((l.strip("# ").strip() for l in notes.splitlines() if l.strip() and not l.startswith("```")), "")
        det = []
        for c, r in m["checks"].items():
            if r["detected"]:
                det.append(f"{c} ({', '.join(r['violated'][:3])}; {r['wall_s']} s)")
        fr = FIRST.get(name, {})
        rows.append((name, m["property"], first_line[:150], "; ".join(det) or "NOT caught", fr.get("first", "caught"), fr.get("then") or ""))
    out = ["## 10. Seeded changes and the checks that catch them", "",
           "Each row is one change written by a fresh sub-agent that saw only the property text and its own scratch worktree. `confirmed` in",
           "meta.json = I re-ran the demonstration without / with the change and the whole unedited test suite with the change myself.",
           "`first evaluation` is the result of the quick check as it stood when the seed arrived; `strengthened` says what was added when it was missed.",
           "", "| seed | property | change (first line of its notes) | caught by (quick tier) | first evaluation | strengthened |", "|---|---|---|---|---|---|"]
    for r in rows:
        out.append("| " + " | ".join(x.replace("|", "/") for x in r) + " |")
    n_first = sum(1 for r in rows if r[4] == "caught")
    out += ["", f"{len(rows)} seeds confirmed; {n_first} were caught by the checks as they stood, the others only after the strengthening named in the last column "
            f"(all of them are caught by the committed checks, except where the row says otherwise)."]
    text = "\n".join(out) + "\n"
    p = os.path.join(ROOT, "DESIGN.md")
    s = open(p).read()
    if "## 10. Seeded changes" in s:
        s = s[:s.index("## 10. Seeded changes")]
    s = s.rstrip("\n") + "\n\n" + text
    open(p, "w").write(s)
    print(f"{len(rows)} rows, {n_first} caught at first evaluation")


if __name__ == "__main__":
    main()
