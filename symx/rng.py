"""Environment stubs for the `random` module: every primitive returns fresh solver variables
constrained only by its documented contract.  Installed by monkey-patching the module *before*
gcmpy is imported (eecc.py / mpcc.py bind `choice` / `shuffle` at import time).

Outside a path context the original functions are used, so ordinary library use is unaffected.
In concrete (replay) mode the same stubs read the scripted values from the replay dictionary, so
the real code runs against a concrete RNG script.
"""
import random as _random

import z3

from .core import Ctx, SymInt, select

_orig = {}


class Tagged(int):
    """a plain int with object identity (concrete replays)"""
_NAMES = ["shuffle", "choice", "choices", "randrange", "randint", "random", "uniform", "sample"]


def _call(ctx, fn):
    flt = getattr(ctx, "rng_filter", None)
    if flt is not None:
        flt(fn)  # a harness may end the path at a primitive it cannot reason about (recorded as a cut, never as a pass)
    k = len(ctx.rng_log)
    return k, f"rng{k}.{fn}"


def shuffle(x):
    ctx = Ctx.current
    if ctx is None:
        return _orig["shuffle"](x)
    k, stem = _call(ctx, "shuffle")
    n = len(x)
    ctx.draw(1)
    orig = list(x)
    rec = {"fn": "shuffle", "call": k, "n": n, "orig": orig, "perm": [], "result": orig, "target": x}
    ctx.rng_log.append(rec)
    if n <= 1:
        return
    pre = getattr(ctx, "shuffle_concrete", None)
    if pre is not None:
        perm = pre(ctx, orig, rec)  # harness-declared concrete ordering(s) for very long lists (forked by the harness itself)
        if perm is not None:
            new = [orig[j] for j in perm]
            x[:] = new
            rec["perm"] = list(perm)
            rec["result"] = new
            return
    rec["names"] = [f"{stem}.p{j}" for j in range(n)]
    ps = [ctx.int(nm, 0, n - 1) for nm in rec["names"]]
    if ctx.mode == "sym":
        ctx.assume_raw(z3.Distinct(*[p.e for p in ps]))
    elif sorted(ps) != list(range(n)):
        from .core import PathAbort

        raise PathAbort("precondition false")
    policy = getattr(ctx, "shuffle_policy", None)
    if policy is not None and ctx.mode == "sym":
        policy(ctx, orig, ps, rec)  # harness-declared reduction of the permutation space (recorded as an assumption)
    new = [select(orig, p) for p in ps]
    if ctx.mode == "conc":
        # give every shuffled integer its own identity (an int subclass), so that harnesses can follow where a stub ends up
        new = [Tagged(v) if type(v) is int else v for v in new]
    x[:] = new
    rec["perm"] = ps
    rec["result"] = new


def choice(seq):
    ctx = Ctx.current
    if ctx is None:
        return _orig["choice"](seq)
    hook = getattr(ctx, "draw_hook", None)
    if hook is not None:
        hook("choice", seq)  # may end the path (PathAbort) when the caller's state provably repeats
    k, stem = _call(ctx, "choice")
    n = len(seq)
    if n == 0:
        raise IndexError("Cannot choose from an empty sequence")
    ctx.draw(1)
    idx = ctx.int(f"{stem}.i", 0, n - 1) if n > 1 else 0
    rec = {"fn": "choice", "call": k, "n": n, "seq": list(seq), "idx": idx}
    ctx.rng_log.append(rec)
    r = select(list(seq), idx)
    rec["result"] = r
    return r


def choices(population, weights=None, *, cum_weights=None, k=1):
    ctx = Ctx.current
    if ctx is None:
        return _orig["choices"](population, weights, cum_weights=cum_weights, k=k)
    c, stem = _call(ctx, "choices")
    population = list(population)
    n = len(population)
    if isinstance(k, SymInt):
        k = k.concrete()
    ctx.draw(k)
    if cum_weights is not None:
        cw = list(cum_weights)
        weights = [cw[0]] + [cw[i] - cw[i - 1] for i in range(1, n)]
    if weights is not None:
        weights = list(weights)
        if len(weights) != n:
            raise ValueError("The number of weights does not match the population")
    idxs = []
    rec = {"fn": "choices", "call": c, "n": n, "population": population, "weights": weights, "k": k, "idx": idxs}
    ctx.rng_log.append(rec)
    out = []
    for j in range(k):
        idx = ctx.int(f"{stem}.i{j}", 0, n - 1) if n > 1 else 0
        if weights is not None and n > 1:
            # only positive-weight items can be drawn
            w = select(weights, idx)
            ctx.assume(w > 0)
        idxs.append(idx)
        out.append(select(population, idx))
    rec["result"] = list(out)  # a copy: callers patch the returned list in place
    return out


def randrange(start, stop=None, step=1):
    ctx = Ctx.current
    if ctx is None:
        return _orig["randrange"](start, stop, step) if stop is not None else _orig["randrange"](start)
    if stop is None:
        start, stop = 0, start
    if step != 1:
        from .core import Unsupported

        raise Unsupported("randrange with a step")
    if isinstance(start, SymInt):
        start = start.concrete()
    if isinstance(stop, SymInt):
        stop = stop.concrete()
    if stop <= start:
        raise ValueError("empty range for randrange()")
    hook = getattr(ctx, "draw_hook", None)
    if hook is not None:
        hook("randrange", (start, stop))  # may end the path (PathAbort) when the caller's state provably repeats
    k, stem = _call(ctx, "randrange")
    ctx.draw(1)
    v = ctx.int(f"{stem}.v", start, stop - 1) if stop - start > 1 else start
    ctx.rng_log.append({"fn": "randrange", "call": k, "lo": start, "hi": stop - 1, "result": v})
    return v


def randint(a, b):
    return randrange(a, b + 1)


def random():
    ctx = Ctx.current
    if ctx is None:
        return _orig["random"]()
    k, stem = _call(ctx, "random")
    ctx.draw(1)
    r = ctx.real(f"{stem}.r", 0, 1, hi_strict=True)
    ctx.rng_log.append({"fn": "random", "call": k, "result": r})
    hook = getattr(ctx, "random_hook", None)
    if hook is not None:
        hook(r)  # a harness may place the variate in a region before the library looks at it (part of the harness' case split)
    return r


def uniform(a, b):
    ctx = Ctx.current
    if ctx is None:
        return _orig["uniform"](a, b)
    return a + (b - a) * random()


def sample(population, k, *, counts=None):
    ctx = Ctx.current
    if ctx is None:
        return _orig["sample"](population, k, counts=counts)
    c, stem = _call(ctx, "sample")
    population = list(population)
    n = len(population)
    ctx.draw(1)
    if not 0 <= k <= n:
        raise ValueError("Sample larger than population or is negative")
    pre = getattr(ctx, "shuffle_concrete", None)
    if pre is not None and k == n and n > 1:
        rec = {"fn": "sample", "call": c, "n": n, "k": k, "population": population, "orig": population, "idx": [], "perm": [], "names": [], "result": population}
        perm = pre(ctx, population, rec)  # full-length sample = shuffle: harness-declared concrete ordering for very long lists
        if perm is not None:
            out = [population[j] for j in perm]
            rec["idx"] = rec["perm"] = list(perm)
            rec["result"] = out
            ctx.rng_log.append(rec)
            return out
    names = [f"{stem}.i{j}" for j in range(k)]
    idxs = [ctx.int(nm, 0, n - 1) for nm in names]
    policy = getattr(ctx, "shuffle_policy", None)
    if ctx.mode == "sym" and k > 1:
        ctx.assume_raw(z3.Distinct(*[p.e for p in idxs]))
    elif ctx.mode == "conc" and len(set(idxs)) != len(idxs):
        from .core import PathAbort

        raise PathAbort("precondition false")
    rec = {"fn": "sample", "call": c, "n": n, "k": k, "population": population, "orig": population, "idx": idxs, "perm": idxs, "names": names}
    if policy is not None and ctx.mode == "sym" and k == n and n > 1:
        policy(ctx, population, idxs, rec)  # same harness-declared reduction of the permutation space as for shuffle
    out = [select(population, i) for i in idxs]
    if ctx.mode == "conc":
        out = [Tagged(v) if type(v) is int else v for v in out]
    rec["result"] = out
    ctx.rng_log.append(rec)
    return out


def install():
    if _orig:
        return
    g = globals()
    for name in _NAMES:
        _orig[name] = getattr(_random, name)
        setattr(_random, name, g[name])
