"""Uninterpreted stand-ins for transcendental functions (only used for C19).

EXP and POW are uninterpreted z3 functions; every application instantiates the sign / monotonicity
axioms that are true of the real functions, so 'unsat' under the abstraction implies validity for the
true exp / pow.  A 'sat' can be an artefact of the abstraction and is replayed numerically."""
import z3

from .core import Ctx, PathAbort, SymReal, _rq, _rv

EXPf = z3.Function("EXP", z3.RealSort(), z3.RealSort())
POWf = z3.Function("POW", z3.RealSort(), z3.RealSort(), z3.RealSort())
UF_LIMIT = 60


def term(ctx, x):
    """a single z3 Real term equal to the rational function x"""
    x = SymReal.of(x)
    if x.d is None:
        return x.n
    key = (x.n.get_id(), x.d.get_id())
    cache = ctx.__dict__.setdefault("_uf_terms", {})
    if key not in cache:
        t = z3.Real(f"uf_t{len(cache)}")
        ctx.assume_raw(t * x.d == x.n)
        cache[key] = t
    return cache[key]


def _count(ctx):
    n = ctx.__dict__.get("_uf_count", 0) + 1
    ctx.__dict__["_uf_count"] = n
    if n > UF_LIMIT:
        raise PathAbort("budget")


def EXP(x):
    ctx = Ctx.current
    t = term(ctx, x)
    q = _rq(t)
    if q is not None and q == 0:
        return SymReal(_rv(1))
    _count(ctx)
    e = EXPf(t)
    apps = ctx.__dict__.setdefault("uf_exp", {})
    if e.get_id() not in apps:
        apps[e.get_id()] = (t, e)
        ctx.assume_raw(e > 0)
        ctx.assume_raw(z3.Implies(t < 0, e < 1))
        ctx.assume_raw(z3.Implies(t > 0, e > 1))
        ctx.assume_raw(z3.Implies(t == 0, e == 1))
        ctx.posvars.add(e.get_id())
    return SymReal(e)


def POW(base, exponent):
    ctx = Ctx.current
    b = term(ctx, base)
    x = term(ctx, exponent)
    qb, qx = _rq(b), _rq(x)
    if qx is not None and qx == 0:
        return SymReal(_rv(1))
    if qb is not None and qb == 1:
        return SymReal(_rv(1))
    _count(ctx)
    p = POWf(b, x)
    apps = ctx.__dict__.setdefault("uf_pow", {})
    if p.get_id() not in apps:
        apps[p.get_id()] = (b, x, p)
        ctx.assume_raw(z3.Implies(b > 0, p > 0))
        ctx.assume_raw(z3.Implies(z3.And(b > 1, x > 0), p > 1))
        ctx.assume_raw(z3.Implies(z3.And(b > 1, x < 0), p < 1))
        if qb is not None and qb > 0:
            ctx.posvars.add(p.get_id())
    return SymReal(p)
