"""symx core: proxy-based symbolic execution of real Python code on top of z3.

A *path context* (Ctx) is the unit of execution: the harness function is run once per path with
Sym* proxies as inputs; bool()/index()/hash() on a proxy are decision points resolved by the
solver under the current path condition.  Paths are enumerated by re-execution with a forced
decision prefix (see explore.py).

Two modes share one harness body:
  mode='sym'  - inputs are z3-backed proxies, ctx.require() discharges obligations with the solver
  mode='conc' - inputs are plain Python values read from a {name: value} dict (solver model or
                stored replay); ctx.require() evaluates concretely.  Used for counterexample
                replay and for witness validation of the proxies against the interpreter.
"""
import os
import time
from fractions import Fraction

import z3

FEAS_TIMEOUT_MS = 5000
OBL_TIMEOUT_MS = 20000
REL_TOL = 1e-9


class PathAbort(BaseException):
    """Ends the current path without a verdict (infeasible prefix, draw budget exceeded, ...).
    BaseException so that `except Exception` in library code cannot swallow it."""

    def __init__(self, reason):
        super().__init__(reason)
        self.reason = reason


class Unsupported(PathAbort):
    """an operation the symbolic proxies cannot model: the path is cut (counted under paths_cut), never reported as a library failure"""

    def __init__(self, what):
        super().__init__("unsupported: " + what)


class EngineError(BaseException):
    """misuse of the engine itself (e.g. a proxy of a finished path met in a concrete run): never a library failure"""


class ReplayDiverged(BaseException):
    """a concrete replay asked for an input the model has no value for (BaseException: library code / guard() must not swallow it)"""


def _ctx():
    c = Ctx.current
    if c is None:
        raise RuntimeError("symx proxy used outside a path context")
    return c


# ---------------------------------------------------------------------------------------------
# proxies
# ---------------------------------------------------------------------------------------------


class SymBool:
    __slots__ = ("e",)

    def __init__(self, e):
        self.e = e

    def __bool__(self):
        return _ctx().branch(self.e)

    def __and__(self, o):
        return SymBool(z3.And(self.e, _b(o)))

    __rand__ = __and__

    def __or__(self, o):
        return SymBool(z3.Or(self.e, _b(o)))

    __ror__ = __or__

    def __invert__(self):
        return SymBool(z3.Not(self.e))

    def __eq__(self, o):
        return SymBool(self.e == _b(o))

    def __ne__(self, o):
        return SymBool(self.e != _b(o))

    def __hash__(self):
        return hash(bool(self))

    def __repr__(self):
        return f"<SymBool {self.e}>"


def _b(x):
    if isinstance(x, SymBool):
        return x.e
    if isinstance(x, bool):
        return z3.BoolVal(x)
    if z3.is_expr(x):
        return x
    raise TypeError(f"not a boolean: {x!r}")


def _iop(op, a, b):
    """integer op with constant folding; returns a plain int when both sides are numerals"""
    av = a.as_long() if z3.is_int_value(a) else None
    bv = b.as_long() if z3.is_int_value(b) else None
    if av is not None and bv is not None:
        return av + bv if op == "+" else av - bv if op == "-" else av * bv
    if op == "+":
        if av == 0:
            return SymInt(b)
        if bv == 0:
            return SymInt(a)
        return SymInt(a + b)
    if op == "-":
        if bv == 0:
            return SymInt(a)
        return SymInt(a - b)
    if av == 0 or bv == 0:
        return 0
    if av == 1:
        return SymInt(b)
    if bv == 1:
        return SymInt(a)
    return SymInt(a * b)


class SymInt:
    """Python int -> z3 Int (mathematical integers)."""

    __slots__ = ("e", "_cv")

    def __init__(self, e):
        self.e = e
        self._cv = None

    # -- concretisation (decision point) ------------------------------------------------------
    def concrete(self):
        if self._cv is None:
            self._cv = _ctx().concretize(self.e)
        return self._cv

    __index__ = concrete
    __int__ = concrete

    def __hash__(self):
        return hash(self.concrete())

    def __float__(self):
        return float(self.concrete())

    def __bool__(self):
        if self._cv is not None:
            return self._cv != 0
        return _ctx().branch(self.e != 0)

    def __repr__(self):
        if self._cv is not None:
            return repr(self._cv)
        return f"<SymInt {self.e}>"

    def __format__(self, spec):
        return format(self.concrete(), spec)

    # -- arithmetic ---------------------------------------------------------------------------
    def _coerce(self, o):
        """returns ('i', z3 int) | ('r', SymReal) | None"""
        if isinstance(o, SymInt):
            return "i", (z3.IntVal(o._cv) if o._cv is not None else o.e)
        if isinstance(o, bool):
            return "i", z3.IntVal(int(o))
        if isinstance(o, int):
            return "i", z3.IntVal(o)
        if isinstance(o, (float, Fraction, SymReal)):
            return "r", SymReal.of(o)
        return None

    def _bin(self, o, op, swap=False):
        c = self._coerce(o)
        if c is None:
            return NotImplemented
        if c[0] == "i":
            a = z3.IntVal(self._cv) if self._cv is not None else self.e
            b = c[1]
            if swap:
                a, b = b, a
            r = _iop(op, a, b)
            return r
        a, b = SymReal.of(self), c[1]
        if swap:
            a, b = b, a
        return a + b if op == "+" else a - b if op == "-" else a * b

    def __add__(self, o):
        return self._bin(o, "+")

    def __radd__(self, o):
        return self._bin(o, "+", swap=True)

    def __sub__(self, o):
        return self._bin(o, "-")

    def __rsub__(self, o):
        return self._bin(o, "-", swap=True)

    def __mul__(self, o):
        if isinstance(o, (list, tuple, str)):
            return o * self.concrete()
        return self._bin(o, "*")

    def __rmul__(self, o):
        if isinstance(o, (list, tuple, str)):
            return o * self.concrete()
        return self._bin(o, "*", swap=True)

    def __neg__(self):
        return _iop("-", z3.IntVal(0), self._ze())

    def _ze(self):
        return z3.IntVal(self._cv) if self._cv is not None else self.e

    def __pos__(self):
        return self

    def __abs__(self):
        e = self._ze()
        if z3.is_int_value(e):
            return abs(e.as_long())
        return SymInt(z3.If(e >= 0, e, -e))

    def __truediv__(self, o):
        return SymReal.of(self) / o

    def __rtruediv__(self, o):
        return SymReal.of(o) / SymReal.of(self)

    @staticmethod
    def _posdiv(o):
        """divisor must be a concrete positive int (Python and z3 agree there)"""
        if isinstance(o, SymInt):
            o = o.concrete()
        if not isinstance(o, int) or o <= 0:
            raise Unsupported("// and % by a symbolic or non-positive divisor")
        return o

    def __floordiv__(self, o):
        d = self._posdiv(o)
        e = self._ze()
        if z3.is_int_value(e):
            return e.as_long() // d
        return SymInt(e / z3.IntVal(d))

    def __mod__(self, o):
        d = self._posdiv(o)
        e = self._ze()
        if z3.is_int_value(e):
            return e.as_long() % d
        if d == 1:
            return 0
        return SymInt(e % z3.IntVal(d))

    def __rfloordiv__(self, o):
        d = self.concrete()
        return o // d

    def __rmod__(self, o):
        d = self.concrete()
        return o % d

    def __pow__(self, n):
        if isinstance(n, SymInt):
            n = n.concrete()
        if isinstance(n, float) and n.is_integer():
            n = int(n)
        if isinstance(n, int) and n >= 0:
            r = 1
            for _ in range(n):
                r = r * self
            return r
        return SymReal.of(self) ** n

    def __rpow__(self, base):
        return base ** self.concrete()

    # -- comparison ---------------------------------------------------------------------------
    def _cmp(self, o, f):
        c = self._coerce(o)
        if c is None:
            return NotImplemented
        if c[0] == "i":
            a, b = self._ze(), c[1]
            if z3.is_int_value(a) and z3.is_int_value(b):
                return f(a.as_long(), b.as_long())
            r = z3.simplify(f(a, b))
            if z3.is_true(r):
                return True
            if z3.is_false(r):
                return False
            return SymBool(r)
        return f(SymReal.of(self), c[1])

    def __eq__(self, o):
        r = self._cmp(o, lambda a, b: a == b)
        return False if r is NotImplemented else r

    def __ne__(self, o):
        r = self._cmp(o, lambda a, b: a != b)
        return True if r is NotImplemented else r

    def __lt__(self, o):
        return self._cmp(o, lambda a, b: a < b)

    def __le__(self, o):
        return self._cmp(o, lambda a, b: a <= b)

    def __gt__(self, o):
        return self._cmp(o, lambda a, b: a > b)

    def __ge__(self, o):
        return self._cmp(o, lambda a, b: a >= b)


def _rv(x):
    """exact z3 Real numeral for a Python number"""
    if isinstance(x, bool):
        x = int(x)
    if isinstance(x, int):
        return z3.RealVal(x)
    if isinstance(x, float):
        x = Fraction(x)  # exact binary value
    if isinstance(x, Fraction):
        return z3.RealVal(f"{x.numerator}/{x.denominator}")
    raise TypeError(x)


_ONE = None


class SymReal:
    """Python float -> exact rational function n/d over z3 Real (d is None for 1).
    No z3 division is ever emitted; comparisons are cross-multiplied."""

    __slots__ = ("n", "d")

    def __init__(self, n, d=None):
        self.n = n
        self.d = d

    @staticmethod
    def of(x):
        if isinstance(x, SymReal):
            return x
        if isinstance(x, SymInt):
            if x._cv is not None:
                return SymReal(_rv(x._cv))
            return SymReal(z3.ToReal(x.e))
        return SymReal(_rv(x))

    def is_const(self):
        return self.d is None and z3.is_rational_value(self.n)

    def const_value(self):
        return Fraction(self.n.numerator_as_long(), self.n.denominator_as_long())

    def __repr__(self):
        return f"<SymReal {self.n}" + (f" / {self.d}>" if self.d is not None else ">")

    @staticmethod
    def _c(o):
        if isinstance(o, (SymReal, SymInt, int, float, Fraction)):
            return SymReal.of(o)
        return None

    def __add__(self, o):
        o = self._c(o)
        if o is None:
            return NotImplemented
        if self.d is None and o.d is None:
            return SymReal(_radd(self.n, o.n))
        if self.d is not None and o.d is not None and self.d.eq(o.d):
            return SymReal(_radd(self.n, o.n), self.d)
        sd, od = self.d, o.d
        n = _radd(_rmul(self.n, od) if od is not None else self.n, _rmul(o.n, sd) if sd is not None else o.n)
        d = _rmul(sd, od) if (sd is not None and od is not None) else (sd if sd is not None else od)
        return SymReal(n, d)

    __radd__ = __add__

    def __neg__(self):
        return SymReal(_rmul(_rv(-1), self.n), self.d)

    def __pos__(self):
        return self

    def __sub__(self, o):
        o = self._c(o)
        if o is None:
            return NotImplemented
        return self + (-o)

    def __rsub__(self, o):
        o = self._c(o)
        if o is None:
            return NotImplemented
        return o + (-self)

    def __mul__(self, o):
        o = self._c(o)
        if o is None:
            return NotImplemented
        n = _rmul(self.n, o.n)
        if self.d is None:
            d = o.d
        elif o.d is None:
            d = self.d
        else:
            d = _rmul(self.d, o.d)
        if _rq(n) == 0:
            d = None
        return SymReal(n, d)

    __rmul__ = __mul__

    def __truediv__(self, o):
        o = self._c(o)
        if o is None:
            return NotImplemented
        # division by zero is a real code path: fork on it
        if o.is_const():
            if o.const_value() == 0:
                raise ZeroDivisionError("float division by zero")
            c = o.const_value()
            return self * SymReal(_rv(1 / c))
        if not _known_pos(o.n) and _ctx().branch(o.n == 0):
            raise ZeroDivisionError("float division by zero")
        n = _rmul(self.n, o.d) if o.d is not None else self.n
        d = _rmul(self.d, o.n) if self.d is not None else o.n
        if _rq(d) is not None:
            q = _rq(d)
            return SymReal(_rmul(n, _rv(1 / q)))
        return SymReal(n, d)

    def __rtruediv__(self, o):
        o = self._c(o)
        if o is None:
            return NotImplemented
        return o / self

    def __pow__(self, k):
        if isinstance(k, SymInt):
            k = k.concrete()
        if isinstance(k, float) and k.is_integer():
            k = int(k)
        if isinstance(k, SymReal) and k.is_const() and k.const_value().denominator == 1:
            k = int(k.const_value())
        if not isinstance(k, int):
            from . import uf

            return uf.POW(self, k)
        if k < 0:
            return SymReal(_rv(1)) / (self ** (-k))
        if k == 0:
            return SymReal(_rv(1))
        n = self.n
        d = self.d
        for _ in range(k - 1):
            n = _rmul(n, self.n)
            if d is not None:
                d = _rmul(d, self.d)
        return SymReal(n, d)

    def __rpow__(self, base):
        from . import uf

        return uf.POW(SymReal.of(base), self)

    def __abs__(self):
        return ite(self >= 0, self, -self)

    def exp(self):  # numpy.exp(obj) dispatches to obj.exp()
        from . import uf

        return uf.EXP(self)

    def concrete(self):
        """fix this symbolic real to the value it has in the current model of the path condition (needed when the library
        hashes, formats or converts a float); the path stays sound but is no longer general in this symbol - noted"""
        if self.is_const():
            return self.const_value()
        c = _ctx()
        # prefer a generic value: inside (0.2, 0.8), different from - but within 1e-4 of - the previously fixed real
        # (adversarial for state keyed by a rounded float); fall back to anything the path condition allows
        x = z3.Real(f"__conc{len(c.conc_reals)}")
        link = [x * self.d == self.n] if self.d is not None else [x == self.n]
        prev = c.conc_reals[-1] if c.conc_reals else None
        tries = []
        if prev is not None:
            tries.append(link + [x != _rv(prev), x - _rv(prev) < _rv(Fraction(1, 10000)), _rv(prev) - x < _rv(Fraction(1, 10000))])
        tries.append(link + [x > _rv(Fraction(1, 5)), x < _rv(Fraction(4, 5))] + ([x != _rv(p) for p in c.conc_reals]))
        tries.append(link + [x != 0, x != 1] + ([x != _rv(p) for p in c.conc_reals]))
        m = None
        for extra in tries:
            r, mm = c._check(*extra)
            if r == "sat":
                m = mm
                break
        if m is None:
            m = c.get_model()
        if m is None:
            raise PathAbort("no model to concretise a real")

        def q(e):
            x = m.eval(e, model_completion=True)
            if z3.is_algebraic_value(x):
                x = x.approx(20)
            return Fraction(x.numerator_as_long(), x.denominator_as_long())

        v = q(self.n) if self.d is None else q(self.n) / q(self.d)
        c.assume_raw(self.n == _rv(v) * self.d if self.d is not None else self.n == _rv(v))
        c.note("a symbolic real was fixed to its model value (hashed / formatted / converted by the library)")
        c.conc_reals.append(v)
        c.model_ok = False
        self.n, self.d = _rv(v), None
        return v

    def __float__(self):
        return float(self.concrete())

    # -- conversions to int: a fresh integer k with k <= x < k+1 (floor); trunc/ceil derived by branching on the sign / on x == k
    def __floor__(self):
        if self.is_const():
            import math as _m

            return _m.floor(self.const_value())
        c = _ctx()
        k = c.int(c.uniq("floor"))
        c.assume(all_([SymReal.of(k) <= self, self < SymReal.of(k) + 1]))
        return k

    def __ceil__(self):
        return -((-self).__floor__())

    def __trunc__(self):
        if self.is_const():
            return int(self.const_value())
        return self.__floor__() if self >= 0 else self.__ceil__()

    def __int__(self):
        k = self.__trunc__()
        return k if isinstance(k, int) else k.concrete()  # int() insists on a real int: fork over the values

    def __round__(self, nd=None):
        if nd is None:
            raise Unsupported("round() of a symbolic real")
        return round(float(self.concrete()), nd)

    def __hash__(self):
        return hash(float(self.concrete()))

    def __format__(self, spec):
        return format(float(self.concrete()), spec)

    def __str__(self):
        return repr(self)

    def __bool__(self):
        return bool(self != 0)

    # -- comparisons (cross multiplied; denominators are non-zero on every live path) ---------
    def _cmp(self, o, f):
        o = self._c(o)
        if o is None:
            return NotImplemented
        a, b = self, o
        if a.d is None and b.d is None:
            l, r = a.n, b.n
        elif _known_pos(a.d) and _known_pos(b.d):
            l = a.n * b.d if b.d is not None else a.n
            r = b.n * a.d if a.d is not None else b.n
        elif a.d is not None and b.d is not None and a.d.eq(b.d):
            l, r = a.n * a.d, b.n * a.d  # times d^2 > 0
        elif b.d is None:
            l, r = a.n * a.d, b.n * a.d * a.d
        elif a.d is None:
            l, r = a.n * b.d * b.d, b.n * b.d
        else:
            l, r = a.n * a.d * b.d * b.d, b.n * b.d * a.d * a.d
        e = z3.simplify(f(l, r))
        if z3.is_true(e):
            return True
        if z3.is_false(e):
            return False
        return SymBool(e)

    def _eqf(self, o):
        """equality needs no sign care: a.n*b.d == b.n*a.d"""
        o = self._c(o)
        if o is None:
            return None
        l = self.n * o.d if o.d is not None else self.n
        r = o.n * self.d if self.d is not None else o.n
        return z3.simplify(l == r)

    def __eq__(self, o):
        if isinstance(o, (int, float)) and o == 0 and _known_pos(self.n):
            return False
        e = self._eqf(o)
        if e is None:
            return False
        if z3.is_true(e):
            return True
        if z3.is_false(e):
            return False
        return SymBool(e)

    def __ne__(self, o):
        r = self.__eq__(o)
        if isinstance(r, bool):
            return not r
        return ~r

    def __lt__(self, o):
        return self._cmp(o, lambda a, b: a < b)

    def __le__(self, o):
        return self._cmp(o, lambda a, b: a <= b)

    def __gt__(self, o):
        return self._cmp(o, lambda a, b: a > b)

    def __ge__(self, o):
        return self._cmp(o, lambda a, b: a >= b)


def _s(e):
    return e


def _known_pos(e, depth=0):
    """structurally positive: positive numeral, a variable declared positive, or a sum/product of such (iterative, memoised)"""
    if e is None:
        return True
    c = Ctx.current
    if c is None:
        q = _rq(e)
        return q is not None and q > 0
    memo = c.__dict__.setdefault("_pos_memo", {})
    stack = [e]
    while stack:
        x = stack[-1]
        i = x.get_id()
        if i in memo:
            stack.pop()
            continue
        q = _rq(x)
        if q is not None:
            memo[i] = q > 0
            stack.pop()
            continue
        if z3.is_const(x) or i in c.posvars:
            memo[i] = i in c.posvars
            stack.pop()
            continue
        if z3.is_app(x) and x.decl().kind() in (z3.Z3_OP_MUL, z3.Z3_OP_ADD):
            ch = x.children()
            todo = [y for y in ch if y.get_id() not in memo]
            if todo:
                stack.extend(todo)
                continue
            memo[i] = all(memo[y.get_id()] for y in ch)
            stack.pop()
            continue
        memo[i] = False
        stack.pop()
    return memo[e.get_id()]


def _rq(e):
    """Fraction value of a z3 real numeral, else None"""
    if z3.is_rational_value(e):
        return Fraction(e.numerator_as_long(), e.denominator_as_long())
    return None


def _radd(a, b):
    x, y = _rq(a), _rq(b)
    if x is not None and y is not None:
        return _rv(x + y)
    if x == 0:
        return b
    if y == 0:
        return a
    return a + b


def _rmul(a, b):
    x, y = _rq(a), _rq(b)
    if x is not None and y is not None:
        return _rv(x * y)
    if x == 0 or y == 0:
        return _rv(0)
    if x == 1:
        return b
    if y == 1:
        return a
    return a * b


# ---------------------------------------------------------------------------------------------
# helpers usable on symbolic and concrete values alike
# ---------------------------------------------------------------------------------------------


def is_sym(x):
    return isinstance(x, (SymInt, SymReal, SymBool))


def ite(c, a, b):
    c = _nb(c)
    if isinstance(c, bool):
        return a if c else b
    ce = _b(c)
    if isinstance(a, tuple) and isinstance(b, tuple) and len(a) == len(b):
        return tuple(ite(c, x, y) for x, y in zip(a, b))
    if isinstance(a, (SymReal, float, Fraction)) or isinstance(b, (SymReal, float, Fraction)):
        a, b = SymReal.of(a), SymReal.of(b)
        if a.d is None and b.d is None:
            return SymReal(z3.If(ce, a.n, b.n))
        ad = a.d if a.d is not None else z3.RealVal(1)
        bd = b.d if b.d is not None else z3.RealVal(1)
        if a.d is not None and b.d is not None and a.d.eq(b.d):
            return SymReal(z3.If(ce, a.n, b.n), a.d)
        return SymReal(z3.If(ce, a.n * bd, b.n * ad), ad * bd)
    ai = a.e if isinstance(a, SymInt) else z3.IntVal(int(a))
    bi = b.e if isinstance(b, SymInt) else z3.IntVal(int(b))
    return SymInt(z3.simplify(z3.If(ce, ai, bi)))


def _nb(c):
    """numpy.bool_ -> bool (concrete replays go through numpy scalars)"""
    return bool(c) if type(c).__name__ in ("bool_", "bool") and not isinstance(c, bool) else c


def all_(conds):
    out = []
    for c in conds:
        c = _nb(c)
        if isinstance(c, bool):
            if not c:
                return False
        else:
            out.append(_b(c))
    if not out:
        return True
    return SymBool(z3.And(*out)) if len(out) > 1 else SymBool(out[0])


def any_(conds):
    out = []
    for c in conds:
        c = _nb(c)
        if isinstance(c, bool):
            if c:
                return True
        else:
            out.append(_b(c))
    if not out:
        return False
    return SymBool(z3.Or(*out)) if len(out) > 1 else SymBool(out[0])


def not_(c):
    c = _nb(c)
    if isinstance(c, bool):
        return not c
    return SymBool(z3.Not(_b(c)))


def implies(a, b):
    a, b = _nb(a), _nb(b)
    if isinstance(a, bool):
        return b if a else True
    if isinstance(b, bool):
        return True if b else not_(a)
    return SymBool(z3.Implies(_b(a), _b(b)))


def count_eq(items, v):
    """number of items equal to v, without forking"""
    tot = 0
    for x in items:
        c = x == v
        if isinstance(c, bool):
            tot = tot + (1 if c else 0)
        else:
            tot = tot + ite(c, 1, 0)
    return tot


def select(seq, idx):
    """seq[idx] as an If-chain when idx is symbolic and the items are numbers / equal-length tuples
    of numbers; otherwise idx is concretised (fork)."""
    if isinstance(idx, SymInt) and idx._cv is not None:
        idx = idx._cv
    if not isinstance(idx, SymInt):
        return seq[idx]
    n = len(seq)
    if n == 1:
        return seq[0]

    def numeric(x):
        return isinstance(x, (int, float, Fraction, SymInt, SymReal)) and not isinstance(x, bool)

    if all(numeric(x) for x in seq):
        r = seq[n - 1]
        for i in range(n - 2, -1, -1):
            r = ite(idx == i, seq[i], r)
        return r
    if all(isinstance(x, tuple) for x in seq) and len({len(x) for x in seq}) == 1 and all(
        numeric(y) for x in seq for y in x
    ):
        return tuple(select([x[k] for x in seq], idx) for k in range(len(seq[0])))
    return seq[idx.concrete()]


def close(a, b):
    """concrete comparison of two real results"""
    if isinstance(a, (int, Fraction)) and isinstance(b, (int, Fraction)):
        return a == b
    a, b = float(a), float(b)
    return abs(a - b) <= REL_TOL * max(1.0, abs(a), abs(b))


def eq(a, b):
    """equality usable in both modes; reals compare with tolerance in concrete mode"""
    if is_sym(a) or is_sym(b):
        if isinstance(a, SymReal) or isinstance(b, SymReal):
            return SymReal.of(a) == b
        return a == b
    if isinstance(a, float) or isinstance(b, float):
        return close(a, b)
    return a == b


# ---------------------------------------------------------------------------------------------
# path context
# ---------------------------------------------------------------------------------------------


class Violation:
    def __init__(self, label, detail, values, reproduced=None, sig=None):
        self.label = label
        self.detail = detail
        self.values = values
        self.reproduced = reproduced
        self.sig = sig or label


class ExactReal(Fraction):
    """exact rational that absorbs floats (a float is read as the rational it denotes): used for the second attempt of a witness
    validation, where the concrete re-run has to follow the 'floats are exact rationals' reading of the symbolic run"""

    __slots__ = ()

    @staticmethod
    def _in(o):
        if isinstance(o, float):
            return Fraction(o)
        if isinstance(o, (int, Fraction)) and not isinstance(o, bool):
            return o
        if isinstance(o, bool):
            return int(o)
        try:
            import numpy as _np

            if isinstance(o, _np.floating):
                return Fraction(float(o))
            if isinstance(o, _np.integer):
                return int(o)
        except Exception:  # noqa
            pass
        return None

    @staticmethod
    def _out(r):
        return ExactReal(r) if isinstance(r, Fraction) else r

    def _bin(self, o, f, swap=False):
        x = ExactReal._in(o)
        if x is None:
            return NotImplemented
        a, b = (Fraction(x), Fraction(self)) if swap else (Fraction(self), Fraction(x))
        return ExactReal._out(f(a, b))

    def __add__(self, o):
        return self._bin(o, lambda a, b: a + b)

    def __radd__(self, o):
        return self._bin(o, lambda a, b: a + b, True)

    def __sub__(self, o):
        return self._bin(o, lambda a, b: a - b)

    def __rsub__(self, o):
        return self._bin(o, lambda a, b: a - b, True)

    def __mul__(self, o):
        return self._bin(o, lambda a, b: a * b)

    def __rmul__(self, o):
        return self._bin(o, lambda a, b: a * b, True)

    def __truediv__(self, o):
        return self._bin(o, lambda a, b: a / b)

    def __rtruediv__(self, o):
        return self._bin(o, lambda a, b: a / b, True)

    def __floordiv__(self, o):
        return self._bin(o, lambda a, b: a // b)

    def __rfloordiv__(self, o):
        return self._bin(o, lambda a, b: a // b, True)

    def __mod__(self, o):
        return self._bin(o, lambda a, b: a % b)

    def __rmod__(self, o):
        return self._bin(o, lambda a, b: a % b, True)

    def __pow__(self, o, mod=None):
        x = ExactReal._in(o)
        if x is not None and Fraction(x).denominator == 1:
            return ExactReal(Fraction(self) ** int(x))
        return float(self) ** float(o)

    def __rpow__(self, o):
        x = ExactReal._in(o)
        if x is not None and self.denominator == 1:
            return ExactReal(Fraction(x) ** int(self))
        return float(o) ** float(self)

    def __neg__(self):
        return ExactReal(-Fraction(self))

    def __pos__(self):
        return self

    def __abs__(self):
        return ExactReal(abs(Fraction(self)))

    def __hash__(self):
        return Fraction.__hash__(self)

    def __repr__(self):
        return repr(float(self)) if self.denominator.bit_length() > 64 else f"{Fraction(self)}"


class Ctx:
    current = None

    def __init__(self, prefix=(), mode="sym", values=None, draw_budget=None, validate=False):
        self.mode = mode
        self.prefix = list(prefix)
        self.pos = 0
        self.trace = []
        self.children = []
        self.values = values or {}
        self.vars = {}  # name -> z3 const (sym mode)
        self.posvars = set()  # ids of z3 reals declared strictly positive
        self.conc_reals = []  # values symbolic reals were fixed to on this path
        self.draw_budget = draw_budget
        self.draws = 0
        self.rng_log = []
        self.observations = []
        self.obligations = []  # (label, status, seconds)
        self.violations = []
        self.notes = []
        self.contribs = []  # (tag, payload): this path's share of a quantity decided over ALL paths of its configuration
        self.xchecks = []
        self.solver_time = 0.0
        self.solver_calls = 0
        self.unknown_feas = 0
        self.failed_labels = []  # conc mode
        self._uniq = 0
        self._enum = None
        self._enum_pos = 0
        if mode == "sym":
            self.solver = z3.Solver()
            self.solver.set("timeout", FEAS_TIMEOUT_MS)
            self.pc = []
            self.model = None
            self.model_ok = False

    # -- fresh inputs -------------------------------------------------------------------------
    def _name(self, name):
        if name in self.vars or (self.mode == "conc" and name in getattr(self, "_used", ())):
            raise RuntimeError(f"symx: duplicate input name {name}")
        return name

    def uniq(self, stem):
        self._uniq += 1
        return f"{stem}#{self._uniq}"

    def int(self, name, lo=None, hi=None):
        if self.mode == "conc":
            if self._enum is not None and lo is not None and hi is not None:
                i = self._enum_pos
                self._enum_pos += 1
                if i >= len(self._enum):
                    self._enum.append([lo, hi, lo])
                return self._enum[i][2]
            if name not in self.values:
                raise ReplayDiverged(f"no value for {name}")
            return int(self.values[name])
        v = z3.Int(self._name(name))
        self.vars[name] = v
        if lo is not None:
            self.assume_raw(v >= lo)
        if hi is not None:
            self.assume_raw(v <= hi)
        return SymInt(v)

    def real(self, name, lo=None, hi=None, lo_strict=False, hi_strict=False):
        if self.mode == "conc":
            if self._enum is not None and lo is not None and hi is not None:
                # inside exists(): a bounded real draw is enumerated over the midpoints of a 64-cell grid (bounded ints: every value)
                i = self._enum_pos
                self._enum_pos += 1
                if i >= len(self._enum):
                    self._enum.append([0, 63, 0])
                x = Fraction(lo) + (Fraction(hi) - Fraction(lo)) * Fraction(2 * self._enum[i][2] + 1, 128)
                return ExactReal(x) if getattr(self, "exact_reals", False) else float(x)
            if name not in self.values:
                raise ReplayDiverged(f"no value for {name}")
            x = self.values[name]
            if getattr(self, "exact_reals", False):
                return ExactReal(Fraction(x))
            return float(Fraction(x)) if not isinstance(x, float) else x
        v = z3.Real(self._name(name))
        self.vars[name] = v
        if lo is not None and (lo > 0 or (lo == 0 and lo_strict)):
            self.posvars.add(v.get_id())
        if lo is not None:
            self.assume_raw(v > _rv(lo) if lo_strict else v >= _rv(lo))
        if hi is not None:
            self.assume_raw(v < _rv(hi) if hi_strict else v <= _rv(hi))
        return SymReal(v)

    def bool(self, name):
        if self.mode == "conc":
            if name not in self.values:
                raise ReplayDiverged(f"no value for {name}")
            return bool(self.values[name])
        v = z3.Bool(self._name(name))
        self.vars[name] = v
        return SymBool(v)

    # -- path condition -----------------------------------------------------------------------
    def assume_raw(self, e):
        self.pc.append(e)
        self.solver.add(e)
        if self.model_ok and self.model is not None:
            if not z3.is_true(self.model.eval(e, model_completion=True)):
                self.model_ok = False

    def assume(self, cond):
        """precondition; an unsatisfiable precondition aborts the path"""
        if isinstance(cond, bool):
            if not cond:
                raise PathAbort("precondition false")
            return
        if self.mode == "conc":
            if not cond:
                raise PathAbort("precondition false")
            return
        self.assume_raw(_b(cond))
        if not self.model_ok:
            self._refresh_model()

    def _check(self, *extra):
        t = time.time()
        if extra:
            self.solver.push()
            for e in extra:
                self.solver.add(e)
        r = self.solver.check()
        m = None
        if r == z3.sat:
            m = self.solver.model()
        if extra:
            self.solver.pop()
        self.solver_time += time.time() - t
        self.solver_calls += 1
        return str(r), m

    def _refresh_model(self):
        r, m = self._check()
        if r == "unsat":
            raise PathAbort("infeasible")
        if r == "sat":
            self.model, self.model_ok = m, True
        else:
            self.model, self.model_ok = None, False
            self.unknown_feas += 1

    def get_model(self):
        if not self.model_ok:
            self._refresh_model()
        return self.model if self.model_ok else None

    # -- decisions ----------------------------------------------------------------------------
    def branch(self, cond):
        if self.mode == "conc":
            raise EngineError("symbolic branch in concrete mode")
        cond = z3.simplify(cond)
        if z3.is_true(cond):
            return True
        if z3.is_false(cond):
            return False
        i = self.pos
        self.pos += 1
        if i < len(self.prefix):
            kind, val = self.prefix[i]
            if kind != "b":
                raise RuntimeError(f"symx: prefix misaligned at {i}: expected branch, got {kind}")
            self.assume_raw(cond if val else z3.Not(cond))
            self.trace.append(("b", val))
            return val
        m = self.get_model()
        if m is not None:
            side = z3.is_true(m.eval(cond, model_completion=True))
            other = z3.Not(cond) if side else cond
            r, _ = self._check(other)
            if r != "unsat":
                if r == "unknown":
                    self.unknown_feas += 1
                self.children.append(self.trace + [("b", not side)])
        else:
            # no model available (solver answered unknown): test both sides
            r1, _ = self._check(cond)
            r0, _ = self._check(z3.Not(cond))
            if r1 == "unsat" and r0 == "unsat":
                raise PathAbort("infeasible")
            side = r1 != "unsat"
            if side and r0 != "unsat":
                self.children.append(self.trace + [("b", False)])
        self.assume_raw(cond if side else z3.Not(cond))
        self.trace.append(("b", side))
        return side

    def concretize(self, expr):
        if self.mode == "conc":
            raise EngineError("symbolic concretize in concrete mode")
        expr = z3.simplify(expr)
        if z3.is_int_value(expr):
            return expr.as_long()
        i = self.pos
        self.pos += 1
        excl = []
        if i < len(self.prefix):
            kind, val = self.prefix[i]
            if kind == "c":
                self.assume_raw(expr == val)
                self.trace.append(("c", val))
                return val
            if kind != "x":
                raise RuntimeError(f"symx: prefix misaligned at {i}: expected value, got {kind}")
            if i != len(self.prefix) - 1:
                raise RuntimeError("symx: exclusion entry must be last in a prefix")
            excl = list(val)
            r, m = self._check(*[expr != v for v in excl])
            if r != "sat":
                if r == "unknown":
                    self.unknown_feas += 1
                raise PathAbort("exhausted")
        else:
            m = self.get_model()
            if m is None:
                raise PathAbort("no model for concretisation")
        v = m.eval(expr, model_completion=True).as_long()
        excl.append(v)
        r, _ = self._check(*[expr != w for w in excl])
        if r != "unsat":
            self.children.append(self.trace + [("x", excl)])
        self.model, self.model_ok = m, True
        self.assume_raw(expr == v)
        self.trace.append(("c", v))
        return v

    def all_models(self, over, limit=2000):
        """every assignment of the z3 constants `over` that is consistent with the path condition
        (model enumeration with blocking clauses); returns a list of z3 models"""
        out = []
        t = time.time()
        self.solver.push()
        try:
            while True:
                r = self.solver.check()
                self.solver_calls += 1
                if r == z3.unsat:
                    break
                if r != z3.sat:
                    raise PathAbort("unknown during model enumeration")
                m = self.solver.model()
                out.append(m)
                if len(out) > limit:
                    raise PathAbort("model enumeration limit")
                self.solver.add(z3.Or([v != m.eval(v, model_completion=True) for v in over]))
        finally:
            self.solver.pop()
            self.solver_time += time.time() - t
        return out

    def fork_int(self, x):
        """concretise a symbolic int (fork over its feasible values)"""
        if isinstance(x, SymInt):
            return x.concrete()
        return int(x)

    def fork_bool(self, x):
        return bool(x)

    # -- RNG budget ---------------------------------------------------------------------------
    def draw(self, n=1):
        self.draws += n
        if self.draw_budget is not None and self.draws > self.draw_budget:
            raise PathAbort("budget")

    # -- observations (witness validation) ------------------------------------------------------
    def observe(self, name, value):
        self.observations.append((name, value))

    def note(self, s):
        self.notes.append(s)

    def box_volume(self, reals):
        """Lebesgue measure of the set of values the given uniform variates (fresh symbolic reals) can take on this path, when every
        constraint of the path condition that mentions one of them is linear and mentions no other of them (a box): product over the
        variates of sup - inf, each found by the solver (z3 Optimize).  None if the region is not such a box or a bound is not found."""
        ids = {}
        for r in reals:
            if not (isinstance(r, SymReal) and r.d is None and z3.is_const(r.n) and not z3.is_rational_value(r.n)):
                return None
            ids[r.n.get_id()] = r.n

        def mentioned(e, acc, seen):
            st = [e]
            while st:
                x = st.pop()
                if x.get_id() in seen:
                    continue
                seen.add(x.get_id())
                if x.get_id() in ids:
                    acc.add(x.get_id())
                st.extend(x.children())
            return acc

        per = {i: [] for i in ids}
        for c in self.pc:
            hit = mentioned(c, set(), set())
            if len(hit) > 1:
                return None
            for i in hit:
                per[i].append(c)
        vol = Fraction(1)
        t = time.time()
        for i, v in ids.items():
            ends = []
            for sense in ("min", "max"):
                opt = z3.Optimize()
                opt.set("timeout", 10000)
                opt.add(*per[i])
                h = opt.minimize(v) if sense == "min" else opt.maximize(v)
                if opt.check() != z3.sat:
                    return None
                tri = opt.lower_values(h) if sense == "min" else opt.upper_values(h)
                def q(x):
                    if z3.is_int_value(x):
                        return Fraction(x.as_long())
                    if z3.is_rational_value(x):
                        return Fraction(x.numerator_as_long(), x.denominator_as_long())
                    return None

                if q(tri[0]) != 0 or q(tri[1]) is None:  # unbounded or not a rational
                    return None
                ends.append(q(tri[1]))
                self.solver_calls += 1
            vol *= ends[1] - ends[0]
        self.solver_time += time.time() - t
        return vol

    def contribute(self, tag, payload):
        """record this path's share of a cross-path quantity (e.g. outcome + probability of the path's resolution of the discrete
        draws); the harness' finalize(cfg, tag, records, complete) decides the obligation once every path of the configuration is in"""
        self.contribs.append((tag, payload))

    # -- obligations --------------------------------------------------------------------------
    def model_values(self, m):
        vals = dict(getattr(self, "extra_values", {}))  # solver-derived facts a harness wants to carry into the concrete replay
        for name, v in self.vars.items():
            x = m.eval(v, model_completion=True)
            if z3.is_int_value(x):
                vals[name] = x.as_long()
            elif z3.is_rational_value(x):
                vals[name] = str(Fraction(x.numerator_as_long(), x.denominator_as_long()))
            elif z3.is_algebraic_value(x):
                a = x.approx(30)
                vals[name] = str(Fraction(a.numerator_as_long(), a.denominator_as_long()))
            elif z3.is_true(x) or z3.is_false(x):
                vals[name] = z3.is_true(x)
            else:
                vals[name] = str(x)
        return vals

    def _xcheck(self, label, solver, status):
        """second-solver cross-check of a sample of decided obligations: the very query is dumped as
        SMT-LIB2 and re-decided by /usr/bin/z3 (4.8.12) and the cvc5 binary; a definite disagreement is
        a harness error, a timeout/unknown/error there is recorded as inconclusive."""
        if label is None or status not in ("sat", "unsat") or XCHECK_PER_LABEL <= 0:
            return
        n = XCHECK_DONE.get(label, 0)
        if n >= XCHECK_PER_LABEL:
            return
        XCHECK_DONE[label] = n + 1
        import subprocess
        import tempfile

        try:
            text = solver.to_smt2()
        except Exception:  # noqa
            return
        body = "\n".join(l for l in text.splitlines() if not l.startswith("(set-logic") and not l.startswith("(set-info"))
        res = {}
        for name, cmd, pre in (("z3-4.8.12", ["/usr/bin/z3", "-T:15"], ""), ("cvc5-1.0.3", ["cvc5", "--tlimit=15000"], "(set-logic ALL)\n")):
            try:
                with tempfile.NamedTemporaryFile("w", suffix=".smt2", delete=True) as fh:
                    fh.write(pre + body + "\n")
                    fh.flush()
                    out = subprocess.run(cmd + [fh.name], capture_output=True, text=True, timeout=40).stdout
                first = out.strip().splitlines()[0].strip() if out.strip() else "none"
                if "(error" in out or first not in ("sat", "unsat"):
                    res[name] = "inconclusive"
                else:
                    res[name] = "agree" if first == status else "DISAGREE"
            except Exception:  # noqa
                res[name] = "inconclusive"
        self.xchecks.append((label, status, res))

    def _solve_neg(self, f, logic=None, timeout=OBL_TIMEOUT_MS, label=None):
        """is pc AND NOT f satisfiable?  returns (status, model)"""
        t = time.time()
        neg = z3.Not(f)
        order = [logic] if logic else [None]
        if logic is None and _mentions_real_mul(neg):
            order = [None, "QF_NRA"]
        status, model = "unknown", None
        for lg in order:
            if lg is None:
                s = z3.Solver()
                cons = self.pc
            else:
                s = z3.SolverFor(lg)
                cons = [c for c in self.pc if _real_only(c)] if lg == "QF_NRA" else self.pc
            s.set("timeout", timeout)
            for c in cons:
                s.add(c)
            s.add(neg)
            r = str(s.check())
            self.solver_calls += 1
            if r == "sat" and lg == "QF_NRA" and len(cons) != len(self.pc):
                # weakened pc: confirm with the whole path condition
                s2 = z3.Solver()
                s2.set("timeout", timeout)
                for c in self.pc:
                    s2.add(c)
                s2.add(neg)
                r = str(s2.check())
                if r == "sat":
                    status, model = "sat", s2.model()
                    break
                if r == "unsat":
                    status = "unsat"
                    break
                continue
            if r == "sat":
                status, model = "sat", s.model()
                self._xcheck(label, s, "sat")
                break
            if r == "unsat":
                status = "unsat"
                self._xcheck(label, s, "unsat")
                break
        self.solver_time += time.time() - t
        return status, model

    def require(self, cond, label, detail=None, twin=None, logic=None, sig=None, timeout=None, fallback=None):
        """Obligation: on this path `cond` must hold for every value of the remaining symbols."""
        if self.mode == "conc":
            ok = bool(cond)
            self.obligations.append((label, "ok" if ok else "FAILED", 0.0))
            if not ok:
                self.failed_labels.append((label, sig or label, _fmt(detail)))
            return ok
        t = time.time()
        if isinstance(cond, bool):
            if cond:
                self.obligations.append((label, "concrete", 0.0))
                self._twin(label, twin, logic)
                return True
            try:
                m = self.get_model()
            except PathAbort:
                m = None
            if m is None:
                # the path condition itself could not be decided (solver 'unknown' / infeasible after all): nothing can be
                # concluded from a failure observed on such a path
                self.obligations.append((label, "unknown", 0.0))
                self.note(f"{label}: failure on a path whose feasibility the solver could not decide (inconclusive)")
                return False
            vals = self.model_values(m)
            self.obligations.append((label, "sat", 0.0))
            self.violations.append(Violation(label, _fmt(detail), vals, sig=sig))
            return False
        f = _b(cond)
        st, m = self._solve_neg(f, logic, timeout or OBL_TIMEOUT_MS, label=label)
        if st == "unknown" and fallback is not None:
            # the direct query timed out: decide the goal from already discharged lemmas instead
            if fallback() == "unsat":
                st = "unsat"
                self.note(f"{label}: decided from discharged lemmas (direct query inconclusive)")
        self.obligations.append((label, st, time.time() - t))
        if st == "sat":
            self.violations.append(Violation(label, _fmt(detail), self.model_values(m), sig=sig))
        self._twin(label, twin, logic)
        return st == "unsat"

    def exists(self, thunk, label, detail=None, sig=None):
        """Existential obligation: some resolution of the RNG draws made inside `thunk` makes its
        result true (e.g. "every member can be drawn").  sym: one solver query pc AND result;
        conc: brute force over the bounded integer draws the thunk asks for."""
        if self.mode == "sym":
            t = time.time()
            st = self._exists_sym(thunk)
            m = None
            if st == "sat":
                m = self.get_model()
            self.obligations.append((label, st, time.time() - t))
            if st == "sat":
                self.violations.append(Violation(label, _fmt(detail), self.model_values(m) if m is not None else None, sig=sig))
            return st == "witness"
        digits = []
        self._enum = digits
        ok = False
        try:
            n0 = len(self.rng_log)
            while True:
                self._enum_pos = 0
                del self.rng_log[n0:]  # keep RNG call numbering aligned with the symbolic run
                if bool(thunk()):
                    ok = True
                    break
                while digits and digits[-1][2] >= digits[-1][1]:
                    digits.pop()
                if not digits:
                    break
                digits[-1][2] += 1
        finally:
            self._enum = None
            del self.rng_log[n0:]  # draws made inside the thunk are local (as in the symbolic run)
        self.obligations.append((label, "ok" if ok else "FAILED", 0.0))
        if not ok:
            self.failed_labels.append((label, sig or label, _fmt(detail)))
        return ok

    def _exists_sym(self, thunk, limit=400):
        """'witness' if some resolution of the draws / forks made inside the (side-effect free) thunk makes it true, 'sat' if none does,
        'unknown' otherwise.  Decisions taken inside the thunk are local: every alternative is explored here and nothing of it stays on the path."""
        t0, p0, c0, n0 = len(self.trace), len(self.pc), len(self.children), len(self.rng_log)
        assert self.pos == t0, "symx: decision counter out of step"
        saved = (self.prefix, self.model, self.model_ok, set(self.vars), self.draws, len(self.observations))
        pending, tries, unknown, found = [[]], 0, False, False
        while pending and tries < limit and not found:
            loc = pending.pop()
            tries += 1
            self.solver.push()
            self.prefix = list(self.trace) + loc
            try:
                c = thunk()
                pending.extend(k[t0:] for k in self.children[c0:])
                if isinstance(c, bool):
                    found = c
                else:
                    r, _ = self._check(_b(c))
                    found = r == "sat"
                    unknown = unknown or r == "unknown"
            except PathAbort as a:
                if a.reason not in ("infeasible", "exhausted", "precondition false"):
                    unknown = True
                pending.extend(k[t0:] for k in self.children[c0:])
            finally:
                self.solver.pop()
                del self.trace[t0:], self.pc[p0:], self.children[c0:], self.rng_log[n0:], self.observations[saved[5]:]
                self.pos = t0
                self.prefix, self.model, self.model_ok = saved[0], saved[1], saved[2]
                for k in [k for k in self.vars if k not in saved[3]]:
                    del self.vars[k]
                self.draws = saved[4]
        if found:
            return "witness"
        return "unknown" if (unknown or pending) else "sat"

    def guard(self, label, f, *a, **k):
        """run library code; an exception escaping it is a violation of `label` on this path"""
        try:
            return f(*a, **k)
        except Exception as e:  # noqa  (PathAbort is a BaseException and passes through)
            import traceback

            tb = traceback.extract_tb(e.__traceback__)
            where = next((f"{os.path.basename(fr.filename)}:{fr.lineno}" for fr in reversed(tb) if "/gcmpy/" in fr.filename), "")
            self.fail(label, f"{type(e).__name__}: {e} at {where}", sig=f"{label}:{type(e).__name__}")
            raise PathAbort("failed")

    def entails(self, hyps, goal, logic="QF_NRA", timeout=OBL_TIMEOUT_MS):
        """standalone query: do the hypotheses (raw z3 formulas / SymBools) entail the goal?  'unsat' = yes"""
        t = time.time()
        s = z3.SolverFor(logic) if logic else z3.Solver()
        s.set("timeout", timeout)
        for h in hyps:
            s.add(_b(h))
        s.add(z3.Not(_b(goal)))
        r = str(s.check())
        self.solver_calls += 1
        self.solver_time += time.time() - t
        return r

    def fail(self, label, detail=None, sig=None):
        """the path itself is the violation (e.g. the library raised)"""
        return self.require(False, label, detail, sig=sig)

    def _twin(self, label, twin, logic):
        """sabotage twin: a deliberately wrong variant of the obligation must be refutable.
        Asked until one comes back sat per label and process (at most TWIN_TRIES times)."""
        if twin is None:
            return
        st0 = TWIN_STATE.get(label)
        if st0 is not None and (st0[0] == "sat" or st0[1] >= TWIN_TRIES):
            return
        if isinstance(twin, bool):
            st = "unsat" if twin else "sat"
        else:
            st, _ = self._solve_neg(_b(twin), logic)
        tries = (st0[1] if st0 else 0) + 1
        TWIN_STATE[label] = (st if st == "sat" or st0 is None or st0[0] != "unknown" else st0[0], tries)
        if st == "sat":
            TWIN_STATE[label] = ("sat", tries)


TWIN_STATE = {}
TWIN_TRIES = 25
XCHECK_DONE = {}
XCHECK_PER_LABEL = int(os.environ.get("SYMX_XCHECK", "1"))


def _fmt(d):
    if d is None:
        return None
    if callable(d):
        try:
            d = d()
        except Exception as e:  # noqa
            d = f"<detail failed: {e}>"
    return d if isinstance(d, (str, int, float, list, dict)) else repr(d)


def _real_only(e):
    """constraint mentions no Int-sorted sub-term"""
    seen = set()
    stack = [e]
    while stack:
        x = stack.pop()
        if x.get_id() in seen:
            continue
        seen.add(x.get_id())
        if z3.is_int(x) if z3.is_arith(x) else False:
            return False
        stack.extend(x.children())
    return True


def _mentions_real_mul(e):
    seen = set()
    stack = [e]
    while stack:
        x = stack.pop()
        if x.get_id() in seen:
            continue
        seen.add(x.get_id())
        if z3.is_app(x) and x.decl().kind() == z3.Z3_OP_MUL and z3.is_real(x):
            return True
        stack.extend(x.children())
    return False
