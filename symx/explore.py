"""Path exploration by re-execution with a forced decision prefix, spread over worker processes
with work donation.  One *job* = (config index, decision prefix); a worker explores the whole
subtree below the prefix depth-first and donates parts of its stack when other workers starve."""
import multiprocessing as mp
import os
import queue
import time
import traceback
from fractions import Fraction

import z3

from .core import Ctx, EngineError, PathAbort, ReplayDiverged, SymBool, SymInt, SymReal, close, TWIN_STATE


SEED = int(os.environ.get("VERIF_SEED", "0") or 0)


class Agg:
    """aggregated statistics of explored paths (mergeable, picklable)"""

    def __init__(self):
        self.paths = 0  # completed paths
        self.runs = 0  # executions incl. aborted ones
        self.decisions = 0
        self.aborts = {}  # reason -> count
        self.obl = {}  # label -> {status -> count}
        self.obl_time = 0.0
        self.solver_time = 0.0
        self.solver_calls = 0
        self.unknown_feas = 0
        self.violations = []  # dicts
        self.witness_ok = 0
        self.witness_bad = []
        self.errors = []
        self.samples = []
        self.twins = {}
        self.notes = {}
        self.per_cfg = {}
        self.lib_time = 0.0
        self.incomplete = False
        self.max_depth = 0
        self.nontrivial = 0
        self.xcheck = {}  # solver -> {agree|DISAGREE|inconclusive: n}
        self.xcheck_bad = []
        self.contribs = {}  # config name -> tag -> [ {payload, values} ]
        self.aborts_cfg = {}  # config name -> {reason: n}

    def merge(self, o):
        for c, d in o.contribs.items():
            t = self.contribs.setdefault(c, {})
            for tag, rs in d.items():
                t.setdefault(tag, []).extend(rs)
        for c, d in o.aborts_cfg.items():
            t = self.aborts_cfg.setdefault(c, {})
            for k, v in d.items():
                t[k] = t.get(k, 0) + v
        self.paths += o.paths
        self.runs += o.runs
        self.decisions += o.decisions
        for k, v in o.aborts.items():
            self.aborts[k] = self.aborts.get(k, 0) + v
        for lab, d in o.obl.items():
            t = self.obl.setdefault(lab, {})
            for k, v in d.items():
                t[k] = t.get(k, 0) + v
        self.obl_time += o.obl_time
        self.solver_time += o.solver_time
        self.solver_calls += o.solver_calls
        self.unknown_feas += o.unknown_feas
        self.violations.extend(o.violations)
        self.witness_ok += o.witness_ok
        self.witness_bad.extend(o.witness_bad)
        self.errors.extend(o.errors)
        self.samples = sorted(self.samples + o.samples, key=lambda x: -x.get("_score", 0))[:8]
        for k, v in o.twins.items():
            if self.twins.get(k) != "sat":
                self.twins[k] = v
        for k, v in o.notes.items():
            self.notes[k] = self.notes.get(k, 0) + v
        for k, v in o.per_cfg.items():
            self.per_cfg[k] = self.per_cfg.get(k, 0) + v
        self.lib_time += o.lib_time
        self.incomplete = self.incomplete or o.incomplete
        self.max_depth = max(self.max_depth, o.max_depth)
        self.nontrivial += o.nontrivial
        for k, d in o.xcheck.items():
            t = self.xcheck.setdefault(k, {})
            for a, b in d.items():
                t[a] = t.get(a, 0) + b
        self.xcheck_bad.extend(o.xcheck_bad)


def _eval_obs(m, v):
    """value of a (possibly symbolic) observation under model m"""
    if isinstance(v, SymInt):
        if v._cv is not None:
            return v._cv
        return m.eval(v.e, model_completion=True).as_long()
    if isinstance(v, SymBool):
        return z3.is_true(m.eval(v.e, model_completion=True))
    if isinstance(v, SymReal):
        def q(e):
            x = m.eval(e, model_completion=True)
            if z3.is_algebraic_value(x):
                x = x.approx(30)
            return Fraction(x.numerator_as_long(), x.denominator_as_long())
        n = q(v.n)
        return n if v.d is None else n / q(v.d)
    if isinstance(v, (list, tuple)):
        return [_eval_obs(m, x) for x in v]
    if isinstance(v, dict):
        return {repr(_eval_obs(m, k)): _eval_obs(m, x) for k, x in v.items()}
    if isinstance(v, (set, frozenset)):
        return sorted((_eval_obs(m, x) for x in v), key=repr)
    return v


def _norm_obs(v):
    if isinstance(v, (list, tuple)):
        return [_norm_obs(x) for x in v]
    if isinstance(v, dict):
        return {repr(_norm_obs(k)): _norm_obs(x) for k, x in v.items()}
    if isinstance(v, (set, frozenset)):
        return sorted((_norm_obs(x) for x in v), key=repr)
    return v


def _obs_equal(a, b):
    if isinstance(a, list) and isinstance(b, list):
        return len(a) == len(b) and all(_obs_equal(x, y) for x, y in zip(a, b))
    if isinstance(a, dict) and isinstance(b, dict):
        return a.keys() == b.keys() and all(_obs_equal(a[k], b[k]) for k in a)
    num = (int, float, Fraction)
    if isinstance(a, num) and isinstance(b, num) and not isinstance(a, bool) and not isinstance(b, bool):
        return close(a, b) if (isinstance(a, float) or isinstance(b, float)) else a == b
    return a == b


PROPERTY_ID = None
PROMOTE_CONCRETE = True
FRESH_REPLAYS = [0]


def fresh_replay(pid, rec):
    """replay a candidate counterexample with `./check <id> --replay` in a new process; returns (sig, detail) if the label fails there"""
    import json
    import re
    import subprocess
    import sys
    import tempfile

    try:
        with tempfile.NamedTemporaryFile("w", suffix=".json", delete=True) as fh:
            json.dump({"property": pid, "label": rec["label"], "config": rec["config"], "values": rec["values"]}, fh, default=str)
            fh.flush()
            out = subprocess.run([sys.executable, "-W", "ignore::SyntaxWarning", "-m", "symx.main", pid, "--replay", fh.name],
                                 capture_output=True, text=True, timeout=900, cwd=os.path.dirname(os.path.dirname(os.path.abspath(__file__)))).stdout
    except Exception:  # noqa
        return None
    for line in out.splitlines():
        m = re.match(r"\s*FAILED (\S+) sig=(.*?) detail=(.*)$", line)
        if m and m.group(1) == rec["label"]:
            return m.group(2), m.group(3)
    return None


def run_conc(fn, cfg, values, exact=False):
    """run the harness body concretely on the real code with scripted inputs (exact: reals are exact rationals, not floats)"""
    ctx = Ctx(mode="conc", values=values)
    ctx.exact_reals = exact
    prev = Ctx.current
    Ctx.current = ctx
    status = "done"
    try:
        fn(ctx, cfg)
    except PathAbort as a:
        status = a.reason
    except ReplayDiverged as e:
        status = f"diverged: {e}"
    except EngineError as e:
        status = f"engine: {e}"
    finally:
        Ctx.current = prev
    return ctx, status


def preimport_library():
    """import every module of the library once, outside any path: module-level code (default arguments, class attributes, caches)
    runs exactly once per process with the real interpreter semantics, as it does for a user"""
    import importlib
    import pkgutil

    try:
        import gcmpy
    except Exception:  # noqa
        return
    for m in pkgutil.walk_packages(gcmpy.__path__, "gcmpy."):
        try:
            importlib.import_module(m.name)
        except Exception:  # noqa
            pass


def run_path(fn, cfg, prefix, draw_budget, agg, cfg_name, validate):
    ctx = Ctx(prefix=prefix, mode="sym", draw_budget=draw_budget)
    Ctx.current = ctx
    t0 = time.time()
    status = "done"
    try:
        fn(ctx, cfg)
    except PathAbort as a:
        status = a.reason
    finally:
        Ctx.current = None
    dt = time.time() - t0
    agg.runs += 1
    agg.lib_time += dt - ctx.solver_time
    agg.solver_time += ctx.solver_time
    agg.solver_calls += ctx.solver_calls
    agg.unknown_feas += ctx.unknown_feas
    agg.max_depth = max(agg.max_depth, len(ctx.trace))
    for lab, st, secs in ctx.obligations:
        d = agg.obl.setdefault(lab, {})
        d[st] = d.get(st, 0) + 1
        agg.obl_time += secs
    for n in ctx.notes:
        agg.notes[n] = agg.notes.get(n, 0) + 1
    for lab, st, res in ctx.xchecks:
        for solver, verdict in res.items():
            d = agg.xcheck.setdefault(solver, {})
            d[verdict] = d.get(verdict, 0) + 1
            if verdict == "DISAGREE" and len(agg.xcheck_bad) < 5:
                agg.xcheck_bad.append({"label": lab, "z3-5.1": st, "solver": solver, "config": cfg_name})
    if status in ("done", "failed"):
        agg.paths += 1
        agg.decisions += len(ctx.trace)
        agg.per_cfg[cfg_name] = agg.per_cfg.get(cfg_name, 0) + 1
        if len(ctx.trace) > 0 or ctx.vars:
            agg.nontrivial += 1
        score = sum(1 for _, st, _ in ctx.obligations if st in ("unsat", "witness", "sat")) * 10 + len(ctx.trace)
        if len(agg.samples) < 3 or score > min(x["_score"] for x in agg.samples):
            if len(agg.samples) >= 3:
                agg.samples.remove(min(agg.samples, key=lambda x: x["_score"]))
            agg.samples.append(
                {
                    "_score": score,
                    "config": cfg_name,
                    "decisions": [list(map(_js, d)) for d in ctx.trace[:40]],
                    "path_condition": [str(c)[:160] for c in ctx.pc[:12]],
                    "symbols": sorted(ctx.vars)[:30],
                    "rng_calls": [r["fn"] for r in ctx.rng_log][:20],
                    "obligations": [[l, s] for l, s, _ in ctx.obligations[:25]],
                }
            )
    else:
        agg.aborts[status] = agg.aborts.get(status, 0) + 1
        d = agg.aborts_cfg.setdefault(cfg_name, {})
        d[status] = d.get(status, 0) + 1
    if ctx.contribs and status == "done" and not ctx.violations:
        try:
            cm = ctx.get_model()
        except PathAbort:
            cm = None
        cvals = ctx.model_values(cm) if cm is not None else None
        for tag, payload in ctx.contribs:
            agg.contribs.setdefault(cfg_name, {}).setdefault(tag, []).append({"payload": payload, "values": cvals})
    # candidate violations: replay against the real code before believing them
    for v in ctx.violations:
        rec = {"label": v.label, "sig": v.sig, "detail": v.detail, "config": cfg, "config_name": cfg_name, "values": v.values}
        if v.values is None:
            rec["reproduced"] = False
            rec["replay_status"] = "no model"
        else:
            try:
                cctx, cst = run_conc(fn, cfg, v.values)
                hit = [f for f in cctx.failed_labels if f[0] == v.label]
                rec["reproduced"] = bool(hit)
                rec["replay_status"] = cst
                rec["replay_failed_labels"] = [list(f) for f in cctx.failed_labels[:5]]
                if hit:
                    rec["detail"] = hit[0][2] or rec["detail"]
                    rec["sig"] = hit[0][1]
            except Exception as e:  # noqa
                rec["reproduced"] = False
                rec["replay_status"] = "exception: " + "".join(traceback.format_exception_only(type(e), e)).strip()
            if not rec["reproduced"] and PROPERTY_ID and FRESH_REPLAYS[0] < 6:
                # library state left behind by earlier paths of this worker (module-level caches) can spoil an in-process
                # replay: try again in a fresh interpreter before giving up on the counterexample
                FRESH_REPLAYS[0] += 1
                hit = fresh_replay(PROPERTY_ID, rec)
                if hit:
                    rec["reproduced"] = True
                    rec["replay_status"] = "reproduced in a fresh interpreter"
                    rec["sig"], rec["detail"] = hit[0], hit[1] or rec["detail"]
        if len(agg.violations) < 40:
            agg.violations.append(rec)
    # witness validation of the proxies: rerun this very path concretely under a model of pc
    if validate and status == "done" and not ctx.violations:
        try:
            m = ctx.get_model()
        except PathAbort:
            m = None
        if m is not None:
            vals = ctx.model_values(m)
            conc_failed = {}

            def attempt(exact):
                cctx, cst = run_conc(fn, cfg, vals, exact=exact)
                conc_failed[exact] = list(cctx.failed_labels) if cst in ("done", "failed") else []
                sym_obs = [(n, _eval_obs(m, v)) for n, v in ctx.observations]
                con_obs = [(n, _norm_obs(v)) for n, v in cctx.observations]
                if cst != "done" and not (cst == "failed" and cctx.failed_labels):
                    return f"concrete run ended with {cst}"
                if cctx.failed_labels and all(s in ("unsat", "concrete", "witness") for _, s, _ in ctx.obligations):
                    return f"concrete run failed {cctx.failed_labels[:3]} although all obligations were discharged"
                if len(sym_obs) != len(con_obs):
                    return f"observation count differs {len(sym_obs)} vs {len(con_obs)}"
                for (n1, a), (n2, b) in zip(sym_obs, con_obs):
                    if n1 != n2 or not _obs_equal(_norm_obs(a), b):
                        return f"observation {n1}: symbolic {a!r} vs concrete {b!r}"
                return None

            try:
                bad = attempt(False)
                if bad:
                    # the symbolic run reads floats as exact rationals: a model on a comparison boundary can take the other branch in
                    # floating point.  Second attempt with exact rationals; only if that disagrees too is the translator at fault.
                    try:
                        bad2 = attempt(True)
                    except Exception:  # noqa
                        bad2 = "exception in the exact re-run"
                    if bad2 is None:
                        bad = None
                        k = "witness validated with exact rationals after a floating-point mismatch (model on a comparison boundary)"
                        agg.notes[k] = agg.notes.get(k, 0) + 1
                    elif PROMOTE_CONCRETE and conc_failed.get(False) and conc_failed.get(True):
                        # the real code, run on this path's model with plain Python values (floats AND exact rationals), fails an obligation
                        # the symbolic run discharged: the library treats proxies differently from numbers (dtype / isinstance tests, C-level
                        # conversions).  That is a reproduced counterexample, not a translator disagreement.
                        both = [f for f in conc_failed[False] if any(g[0] == f[0] for g in conc_failed[True])]
                        if both:
                            f0 = both[0]
                            if len(agg.violations) < 40:
                                agg.violations.append({"label": f0[0], "sig": f0[1], "detail": f0[2], "config": cfg, "config_name": cfg_name, "values": vals,
                                                       "reproduced": True, "replay_status": "found by the concrete re-run of this path's model on the real code "
                                                       "(the symbolic run followed a proxy-only branch of the library)"})
                            d = agg.obl.setdefault(f0[0], {})
                            d["sat"] = d.get("sat", 0) + 1
                            bad = None
                if bad:
                    if len(agg.witness_bad) < 5:
                        agg.witness_bad.append({"config": cfg_name, "values": vals, "why": bad})
                else:
                    agg.witness_ok += 1
            except Exception as e:  # noqa
                if len(agg.witness_bad) < 5:
                    agg.witness_bad.append({"config": cfg_name, "values": vals, "why": "exception " + traceback.format_exc()[-600:]})
    return ctx.children


def _js(x):
    if isinstance(x, (list, tuple)):
        return [_js(y) for y in x]
    return x


def _worker(harness_path, jobs, results, tier, deadline, nworkers, validate_every):
    try:
        import importlib

        mod = importlib.import_module(harness_path)
        preimport_library()
        global PROPERTY_ID, PROMOTE_CONCRETE
        PROPERTY_ID = getattr(mod, "PROPERTY", None)
        PROMOTE_CONCRETE = not getattr(mod, "SPURIOUS_IS_UNDECIDED", False)
        cfgs = mod.configs(tier)
        budget = getattr(mod, "DRAW_BUDGET", {}).get(tier)
        while True:
            job = jobs.get()
            if job is None:
                return
            ci, prefix = job
            cfg = cfgs[ci]
            name = cfg.get("name", str(ci))
            agg = Agg()
            stack = [prefix]
            n = 0
            while stack:
                if time.time() > deadline:
                    agg.incomplete = True
                    break
                p = stack.pop()
                n += 1
                validate = validate_every and (agg.paths < 3 or (n + SEED) % validate_every == 0)
                try:
                    kids = run_path(mod.path, cfg, p, budget, agg, name, validate)
                except Exception:  # noqa  harness error
                    agg.errors.append({"config": name, "prefix": _js(p), "traceback": traceback.format_exc()[-1500:]})
                    if len(agg.errors) > 3:
                        break
                    continue
                stack.extend(kids)
                # donate the shallowest half of the stack if others starve
                if len(stack) > 1 and n % 4 == 0:
                    try:
                        starving = jobs.qsize() < nworkers
                    except NotImplementedError:
                        starving = False
                    if starving:
                        half = len(stack) // 2
                        give, stack = stack[:half], stack[half:]
                        # donated jobs go through the coordinator so that its count of
                        # outstanding jobs can never run ahead of the queue
                        results.put(("give", [(ci, g) for g in give]))
            for k, v in TWIN_STATE.items():
                agg.twins[k] = v[0]
            results.put(("done", agg))
    except BaseException:  # noqa
        a = Agg()
        a.errors.append({"config": "?", "traceback": traceback.format_exc()[-1500:]})
        results.put(("done", a))
        results.put(("dead", None))


def explore(harness_path, tier, ncfg, nworkers=None, time_limit=900, validate_every=25):
    """explore every configuration of a harness module; returns an Agg"""
    nworkers = nworkers or min(16, os.cpu_count() or 4)
    ctx = mp.get_context("fork")
    jobs = ctx.Queue()
    results = ctx.Queue()
    deadline = time.time() + time_limit
    outstanding = 0
    for ci in range(ncfg):
        jobs.put((ci, []))
        outstanding += 1
    procs = [
        ctx.Process(target=_worker, args=(harness_path, jobs, results, tier, deadline, nworkers, validate_every), daemon=True)
        for _ in range(nworkers)
    ]
    for p in procs:
        p.start()
    total = Agg()
    dead = 0
    while outstanding > 0:
        try:
            kind, payload = results.get(timeout=5)
        except queue.Empty:
            if not any(p.is_alive() for p in procs):
                total.errors.append({"config": "?", "traceback": "all workers died"})
                break
            if time.time() > deadline + 120:
                total.incomplete = True
                total.errors.append({"config": "?", "traceback": "workers did not stop after the deadline"})
                break
            continue
        if kind == "give":
            outstanding += len(payload)
            for j in payload:
                jobs.put(j)
        elif kind == "done":
            outstanding -= 1
            total.merge(payload)
        elif kind == "dead":
            dead += 1
            if dead >= nworkers:
                break
    for _ in procs:
        jobs.put(None)
    for p in procs:
        p.join(timeout=5)
        if p.is_alive():
            p.terminate()
    return total
