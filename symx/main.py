"""check driver:  python -m symx.main <ID> [--tier quick|thorough] [--replay FILE]

exit 0  property held on everything explored (inconclusive obligations are listed, never counted)
exit 1  reproduced violation that known_findings.txt does not list  (VIOLATION line on stdout)
exit 3  harness error: non-reproducing model, witness mismatch, vacuous harness, crash
"""
import argparse
import glob
import importlib
import json
import os
import sys
import time

ROOT = os.path.dirname(os.path.dirname(os.path.abspath(__file__)))
REPO = os.environ.get("GCMPY_REPO", "/repo")

os.environ.setdefault("PYTHONDONTWRITEBYTECODE", "1")
os.environ.setdefault("GCMPY_VERIF", "1")
sys.dont_write_bytecode = True
sys.path.insert(0, REPO)
sys.path.insert(0, ROOT)

from symx import rng  # noqa: E402

rng.install()  # before gcmpy is imported anywhere

from symx import explore as ex  # noqa: E402

TIME_LIMIT = {"quick": 600, "thorough": 5400}


def find_harness(pid):
    hits = glob.glob(os.path.join(ROOT, "harness", pid.lower() + "_*.py"))
    if not hits:
        raise SystemExit(f"no harness for {pid}")
    return "harness." + os.path.basename(hits[0])[:-3]


def known_findings(pid):
    out = []
    p = os.path.join(ROOT, "known_findings.txt")
    if os.path.exists(p):
        for line in open(p):
            line = line.strip()
            if line.startswith("finding:") and f"property={pid} " in line:
                # finding: property=C09 sig=<sig> | text
                rest = line.split(f"property={pid} ", 1)[1]
                sig, _, text = rest.partition(" | ")
                sig = sig.strip()
                if sig.startswith("sig="):
                    sig = sig[4:]
                out.append((sig, text.strip()))
    return out


BENIGN_ABORTS = ("infeasible", "exhausted", "precondition false")


def conc_records(mod, cfg, tag, values_list):
    """re-run every contributing path concretely on the real code and collect what it contributes"""
    out = []
    for vals in values_list:
        if vals is None:
            continue
        try:
            cctx, st = ex.run_conc(mod.path, cfg, vals)
        except Exception:  # noqa
            continue
        out.extend({"payload": p, "values": vals} for t, p in cctx.contribs if t == tag)
    return out


def finalize_aggregates(mod, cfgs, agg):
    """cross-path obligations: the harness' finalize() judges the table of contributions of every configuration; a failure is
    replayed by re-running every contributing path concretely and judging the concrete table"""
    if not hasattr(mod, "finalize"):
        return
    by_name = {c.get("name", str(i)): c for i, c in enumerate(cfgs)}
    for name, tags in sorted(agg.contribs.items()):
        cfg = by_name.get(name)
        if cfg is None:
            continue
        cut = {k: v for k, v in agg.aborts_cfg.get(name, {}).items() if k not in BENIGN_ABORTS}
        complete = not cut and not agg.incomplete
        for tag, recs in sorted(tags.items()):
            for res in mod.finalize(cfg, tag, recs, complete) or []:
                lab = res["label"]
                d = agg.obl.setdefault(lab, {})
                if res.get("undecided"):
                    d["unknown"] = d.get("unknown", 0) + 1
                    agg.notes[res["undecided"]] = agg.notes.get(res["undecided"], 0) + 1
                    continue
                st = "unsat" if res["ok"] else "sat"
                d[st] = d.get(st, 0) + 1
                if res["ok"]:
                    continue
                vl = [r["values"] for r in recs]
                again = mod.finalize(cfg, tag, conc_records(mod, cfg, tag, vl), complete) or []
                hit = [x for x in again if not x.get("ok", True) and not x.get("undecided") and x["label"] == lab]
                agg.violations.append({"label": lab, "sig": (hit[0] if hit else res).get("sig") or lab, "detail": (hit[0] if hit else res).get("detail"),
                                       "config": cfg, "config_name": name, "values": None, "aggregate": {"tag": tag, "values": vl},
                                       "reproduced": bool(hit), "replay_status": "aggregate table recomputed from concrete re-runs of every path"})


def do_replay(pid, mod, path):
    doc = json.load(open(path))
    if doc.get("aggregate"):
        tag = doc["aggregate"]["tag"]
        recs = conc_records(mod, doc["config"], tag, doc["aggregate"]["values"])
        print(f"replay {path}: aggregate '{tag}' over {len(recs)} concrete re-runs")
        bad = [x for x in (mod.finalize(doc["config"], tag, recs, True) or []) if not x.get("ok", True) and not x.get("undecided")]
        for x in bad:
            print(f"  FAILED {x['label']} sig={x.get('sig') or x['label']} detail={x.get('detail')}")
        if bad:
            print(f"VIOLATION property={pid} replay={path}")
            return 1
        print("  no obligation failed on this replay")
        return 0
    cctx, st = ex.run_conc(mod.path, doc["config"], doc["values"])
    print(f"replay {path}: status={st}")
    for lab, s, _ in cctx.obligations:
        if s != "ok":
            print(f"  obligation {lab}: {s}")
    if cctx.failed_labels:
        for f in cctx.failed_labels:
            print(f"  FAILED {f[0]} sig={f[1]} detail={f[2]}")
        print(f"VIOLATION property={pid} replay={path}")
        return 1
    print("  no obligation failed on this replay")
    return 0


def main():
    ap = argparse.ArgumentParser()
    ap.add_argument("pid")
    ap.add_argument("--tier", default=os.environ.get("VERIF_TIER", "quick"))
    ap.add_argument("--replay")
    ap.add_argument("--workers", type=int, default=int(os.environ.get("VERIF_WORKERS", "0")) or None)
    ap.add_argument("--time-limit", type=int)
    a = ap.parse_args()
    pid = a.pid.upper()
    tier = a.tier if a.tier in ("quick", "thorough") else "quick"
    seed = int(os.environ.get("VERIF_SEED", "0") or 0)
    hpath = find_harness(pid)
    mod = importlib.import_module(hpath)
    ex.preimport_library()
    if a.replay:
        sys.exit(do_replay(pid, mod, a.replay))

    t0 = time.time()
    cfgs = mod.configs(tier)
    limit = a.time_limit or getattr(mod, "TIME_LIMIT", TIME_LIMIT).get(tier, TIME_LIMIT[tier])
    agg = ex.explore(hpath, tier, len(cfgs), nworkers=a.workers, time_limit=limit,
                     validate_every=getattr(mod, "VALIDATE_EVERY", 25))
    finalize_aggregates(mod, cfgs, agg)
    extra_ev = {}
    if hasattr(mod, "post_hook"):
        ph = mod.post_hook(tier) or {}
        extra_ev = ph.get("evidence", {})
        agg.violations.extend(ph.get("violations", []))
    wall = time.time() - t0

    # ---- classify -----------------------------------------------------------------------------
    known = known_findings(pid)
    reproduced = [v for v in agg.violations if v.get("reproduced")]
    spurious = [v for v in agg.violations if not v.get("reproduced")]
    new, known_hits = {}, {}
    for v in reproduced:
        k = [kf for kf in known if kf[0] == v["sig"]]
        (known_hits if k else new).setdefault(v["sig"], v)

    n_obl = sum(sum(d.values()) for d in agg.obl.values())
    n_dis = sum(d.get("unsat", 0) + d.get("concrete", 0) + d.get("witness", 0) for d in agg.obl.values())
    n_unk = sum(d.get("unknown", 0) for d in agg.obl.values())
    n_sat = sum(d.get("sat", 0) for d in agg.obl.values())

    harness_errors = []
    if agg.errors:
        harness_errors.append(f"{len(agg.errors)} harness exception(s): {agg.errors[0]['traceback'][-700:]}")
    if agg.paths == 0:
        harness_errors.append("no path completed (vacuous harness)")
    if agg.witness_bad:
        harness_errors.append(f"witness validation mismatch: {agg.witness_bad[0]['why']}")
    undecided_spurious = 0
    if spurious and getattr(mod, "SPURIOUS_IS_UNDECIDED", False):
        # abstraction (uninterpreted functions): a model that does not reproduce numerically is inconclusive
        undecided_spurious = len(spurious)
        print(f"  {len(spurious)} solver model(s) under the EXP/POW abstraction did not reproduce numerically: reported as undecided")
        spurious = []
    if spurious and not reproduced:
        harness_errors.append(
            f"{len(spurious)} solver model(s) did not reproduce on the real code, e.g. {spurious[0]['label']}: "
            f"{spurious[0].get('replay_status')} {spurious[0].get('detail')}"
        )
    if agg.xcheck_bad:
        harness_errors.append(f"second solver disagrees with z3 5.1 on a dumped obligation: {agg.xcheck_bad[0]}")
    want = set(mod.expected_labels(agg) if hasattr(mod, "expected_labels") else getattr(mod, "EXPECTED_LABELS", []))
    missing = sorted(l for l in want if l not in agg.obl)
    if missing and not reproduced and not agg.incomplete:
        harness_errors.append(f"obligation families never reached: {missing}")
    dead_twins = sorted(k for k, v in agg.twins.items() if v != "sat")
    if dead_twins and not reproduced:
        harness_errors.append(f"sabotage twins not refuted (vacuity suspect): {dead_twins}")

    # ---- replay files -------------------------------------------------------------------------
    rdir = os.path.join(ROOT, "replays", pid)
    os.makedirs(rdir, exist_ok=True)
    lines = []
    for i, (sig, v) in enumerate(sorted(new.items())):
        rp = os.path.join(rdir, f"{tier}_{i}.json")
        doc = {"property": pid, "label": v["label"], "sig": sig, "detail": v["detail"], "config": v["config"], "values": v["values"]}
        if v.get("aggregate"):
            doc["aggregate"] = v["aggregate"]
        json.dump(doc, open(rp, "w"), indent=1, default=str)
        lines.append(f"VIOLATION property={pid} replay={rp}")
        print(f"  violated: {v['label']} [{sig}] config={v['config_name']} detail={v['detail']}")
    for sig, v in sorted(known_hits.items()):
        text = [kf[1] for kf in known if kf[0] == sig][0]
        print(f"KNOWN-FINDING: property={pid} {sig} | {text}")

    # ---- evidence -----------------------------------------------------------------------------
    ev = {
        "property_id": pid,
        "tier": tier,
        "seed": seed,
        "level": "model_checking",
        "coverage": {
            "states": agg.paths,
            "transitions": agg.decisions + n_obl,
            "fork_decisions": agg.decisions,
            "traces_validated_against_impl": agg.witness_ok,
            "samples": [{k: v for k, v in x.items() if k != "_score"} for x in agg.samples[:6]],
            "exhaustive": (not agg.incomplete) and not agg.aborts.get("budget"),
            "evaluations": agg.runs,
            "distinct_nontrivial": agg.nontrivial,
            "rule": "one evaluation = one symbolic execution of the real functions along one feasible decision path "
                    "(paths are distinct by construction: they differ in at least one solver-checked decision); "
                    "non-trivial = has at least one symbolic input or decision; states = completed paths, transitions = solver-checked "
                    "fork decisions + obligations decided at the path ends",
            "obligations": n_obl,
            "discharged": n_dis,
            "unknown": n_unk,
            "refuted": n_sat,
            "obligations_by_family": agg.obl,
            "sabotage_twins": agg.twins,
            "functions_encoded": getattr(mod, "FUNCTIONS", []),
            "bounds": getattr(mod, "BOUNDS", {}).get(tier, ""),
            "outside_bounds": getattr(mod, "OUTSIDE", ""),
            "configurations": len(cfgs),
            "paths_per_configuration": dict(sorted(agg.per_cfg.items())[:60]),
            "paths_cut": agg.aborts,
            "solver": "z3 " + __import__("z3").get_version_string(),
            "second_solver_crosscheck": agg.xcheck,
            "solver_calls": agg.solver_calls,
            "solver_time_s": round(agg.solver_time, 2),
            "library_time_s": round(agg.lib_time, 2),
            "feasibility_unknown": agg.unknown_feas,
            "max_decision_depth": agg.max_depth,
            "stubs": getattr(mod, "STUBS", []),
            "notes": agg.notes,
            "harness_errors": harness_errors,
            "spurious_models": len(spurious),
            "undecided_abstraction_models": undecided_spurious,
            "known_findings_hit": sorted(known_hits),
            "time_limit_hit": agg.incomplete,
            "cross_path_tables": {c: {t: len(r) for t, r in d.items()} for c, d in sorted(agg.contribs.items())},
            "extra": extra_ev,
        },
        "assumptions": getattr(mod, "ASSUMPTIONS", []),
        "wall_s": round(wall, 2),
        "violations": len(new),
    }
    os.makedirs(os.path.join(ROOT, "evidence"), exist_ok=True)
    json.dump(ev, open(os.path.join(ROOT, "evidence", f"{pid}.json"), "w"), indent=1, default=str)

    print(
        f"{pid} [{tier}] configs={len(cfgs)} paths={agg.paths} runs={agg.runs} decisions={agg.decisions} "
        f"obligations={n_obl} discharged={n_dis} unknown={n_unk} refuted={n_sat} witness_ok={agg.witness_ok} "
        f"cut={agg.aborts} solver={agg.solver_time:.1f}s lib={agg.lib_time:.1f}s wall={wall:.1f}s"
        + (" INCOMPLETE(time limit)" if agg.incomplete else "")
    )
    if n_unk:
        unk = {k: d["unknown"] for k, d in agg.obl.items() if d.get("unknown")}
        print(f"  inconclusive obligations (not counted as discharged): {unk}")
    for line in lines:
        print(line)
    if lines:
        sys.exit(1)
    if harness_errors:
        for h in harness_errors:
            print("HARNESS-ERROR:", h)
        sys.exit(3)
    sys.exit(0)


if __name__ == "__main__":
    main()
