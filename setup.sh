#!/bin/bash
# Offline bootstrap of the overlay venv used by every check (idempotent, flock-protected).
set -e
cd "$(dirname "$0")"
exec 9>/verif/.setup.lock 2>/dev/null || exec 9>/tmp/.verif_setup.lock
flock 9
if [ -x .venv/bin/python ] && .venv/bin/python -c "import z3, networkx, numpy, crosshair" 2>/dev/null; then
  exit 0
fi
rm -rf .venv
/venv/bin/python -m venv .venv
SP=$(.venv/bin/python -c "import site; print(site.getsitepackages()[0])")
echo "import site; site.addsitedir('/venv/lib/python3.12/site-packages')" > "$SP/zz_venv_overlay.pth"
PIP_NO_INDEX=1 .venv/bin/pip install -q --no-index --find-links /opt/veriftools/wheels z3-solver crosshair-tool >/dev/null
.venv/bin/python -c "import z3, networkx, numpy, crosshair; print('setup ok: z3', z3.get_version_string())"
